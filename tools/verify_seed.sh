#!/bin/bash
# verify_seed.sh <seed dir> : confirm a seeded defect in a scratch worktree of /repo HEAD.
#  1. demo passes on the clean tree  2. patch applies  3. demo fails with the patch  4. unit suite still passes (3 known failures)
# Writes <seed dir>/verify.log and prints one summary line. Removes the worktree afterwards.
set -u
SD="$(realpath "$1")"; NAME="$(basename "$SD")"
WT="/tmp/vs/$NAME"; LOG="$SD/verify.log"
mkdir -p /tmp/vs; rm -rf "$WT"; git -C /repo worktree prune
git -C /repo worktree add -q --detach "$WT" HEAD || { echo "$NAME worktree-failed"; exit 2; }
run_demo() { (cd "$WT" && PYTHONPATH="$WT" JAX_PLATFORMS=cpu timeout 600 /venv/bin/python "$SD/demo.py" >>"$LOG" 2>&1); }
: > "$LOG"
echo "== demo on clean tree" >>"$LOG"; run_demo; C=$?
echo "== apply" >>"$LOG"; git -C "$WT" apply "$SD/patch.diff" >>"$LOG" 2>&1; A=$?
echo "== demo with patch" >>"$LOG"; run_demo; P=$?
T="skipped"
if [ "${SKIP_TESTS:-0}" != "1" ]; then
  echo "== unit suite with patch" >>"$LOG"
  (cd "$WT" && PYTHONPATH="$WT" JAX_PLATFORMS=cpu /venv/bin/python -m pytest -q -p no:cacheprovider --timeout=900 -n 6 tests/unit 2>&1 | tail -8) >>"$LOG" 2>&1
  F=$(grep -c "^FAILED" "$LOG"); PASSED=$(grep -Eo "[0-9]+ passed" "$LOG" | tail -1)
  KNOWN=$(grep "^FAILED" "$LOG" | grep -c "test_same_structure\|test_chain\|test_extend")
  T="failed=$F known=$KNOWN $PASSED"
fi
git -C /repo worktree remove --force "$WT"
echo "$NAME clean_rc=$C apply_rc=$A patched_rc=$P tests: $T" | tee -a "$LOG"
