#!/bin/bash
# like seed_matrix.sh but only for the directories given as arguments; appends to seeded/MATRIX.tsv
cd "$(dirname "$0")/.."
TIER="${TIER:-quick}"
run_one() {
  d="$1"; pid=$(python3 -c "import json,sys; m=json.load(open('$d/meta.json')); print(m.get('breaks_property') or m.get('property'))")
  line=$(tools/try_seed.sh "$d" "$pid" "$TIER" 0 2>&1 | tail -1)
  rc=$(echo "$line" | sed -n 's/.*rc=\([0-9]*\).*/\1/p'); nv=$(echo "$line" | sed -n 's/.*rc=[0-9]* \([0-9]*\) violation.*/\1/p')
  mech=$(echo "$line" | sed -n 's/.*"mechanism": "\([^"]*\)".*/\1/p')
  echo -e "$(basename $d)\t$pid\t$TIER\trc=$rc\tviolation_lines=$nv\t$mech" >> seeded/MATRIX2.tmp
}
export -f run_one; export TIER
: > seeded/MATRIX2.tmp
printf "%s\n" "$@" | xargs -P ${PAR:-4} -I{} bash -c 'run_one {}'
sort seeded/MATRIX2.tmp
