#!/usr/bin/env python3
"""Regenerates MANIFEST.json from the table below (kept in one place so it stays valid at all times)."""
import json, os, subprocess
D = os.path.dirname(os.path.dirname(os.path.abspath(__file__)))
REPO_COMMITS = subprocess.check_output(["git", "-C", "/repo", "log", "--format=%h %s"]).decode().splitlines()
hook_commits = [l.split()[0] for l in REPO_COMMITS if l.split(" ", 1)[1].startswith("verif hooks")]

# pid -> (technique, level text, level note, design ref)
NOTE_ASYNC = "Trusts the guarded hook points (rex/_verif.py) and AsyncGraph.get_record() as observation channels, cross-checked by the witness payloads/host trace; stalls of graphs outside G_live and watchdog firings are inconclusive, never violations."
NOTE_COMP = "Trusts jax's ordered io_callback and the public Graph.timings arrays as observation channels; configurations rex refuses with an explicit exception are counted as rejected."
NOTE_PURE = "Reference models are float64 numpy/scipy re-implementations written from the property text; tolerances are stated in DESIGN.md; explicit refusals are counted, not judged."
CHECKS = {
 "C01": ("differential monitor: recorded async episodes vs compiled replay, compared per vertex in the rex record and in an independent witness host trace",
         "Held-on-what-was-observed: each (experiment, mode, prune, episode) replays bit-exactly (eps, seq, ts, rng, state, windows incl. payload, output) for every scheduled vertex inside the horizon, on random G_all graphs recorded under perturbed schedules, ragged multi-episode stacks, all supergraph modes x prune, rollout and reset/step driving.", NOTE_ASYNC + " " + NOTE_COMP, "4/C01"),
 "C02": ("differential monitor under schedule perturbation: seeded pauses at hooked task boundaries, starved worker, user-thread pauses in start(), real-time factors, run vs reset/step, LINE-level yield injection; records compared on the common prefix",
         "Held-on-what-was-observed: 7-8 differently perturbed runs per graph (same and fresh AsyncGraph object) agree field by field with the unperturbed baseline; the evidence reports distinct interleaving fingerprints actually produced. Interleavings are sampled, not enumerated.", NOTE_ASYNC, "4/C02"),
 "C03": ("offline checker over recorded episode histories (ordering, exactly-once, causality, policy re-evaluation in exact rationals) on perturbed AsyncGraph runs of generated witness graphs",
         "Held-on-what-was-observed: every recorded episode of the run is checked clause by clause (exactly-once in-order delivery, recv>=sent, consuming step per policy, gap-free non-overlapping steps, window contents and payload identity). Reach comes from random graphs incl. all policy combinations, heavy jitter, overruns and exact ties.", NOTE_ASYNC, "4/C03"),
 "C04": ("offline reference-model monitor: the start-time recurrence (schedule+drift / previous end / blocking arrival) re-evaluated from primary record fields of generated overrun-heavy graphs",
         "Held-on-what-was-observed: every recorded step start equals the recomputed law within 5e-7, ts_end = ts_start + delay, deterministic delays exact, stochastic delays within a 6.5-sigma bound of the configured distribution, FREQUENCY spacing and PHASE grid-return clauses; graphs cover both scheduling modes, advance, late blocking arrivals.", NOTE_ASYNC, "4/C04"),
 "C05": ("bounded-progress monitor with quiescent-deadlock detector and deterministic gates at guarded hooks (supervisor held at sync.enter / sync.before_wait while stop() runs), plus offline isolation checker (episode nonce, seq/time from 0)",
         "Held-on-what-was-observed: on protocol-valid histories over the supported class of DESIGN 2.4 (G_live, the repository's own topology, G_wide = no blocking fast->slow edge, and the ring / blocking-cycle / fan / tie families) and both clocks no lifecycle call ended in a quiescent deadlock, including the forced lost-wake-up interleaving; every finished episode started from seq 0 / time 0 and saw only its own episode's messages. 'Always returns' is NOT claimed beyond the explored histories and graph class (graphs with a blocking fast->slow edge can hit the documented num_tokens limit).", NOTE_ASYNC, "4/C05"),
 "C06": ("execution-count monitor: ordered io_callback inside the witness step reports (node, seq seen, nonce); the multiset is compared with the episode record (async) and the compiled schedule (all modes)",
         "Held-on-what-was-observed: every recorded/scheduled tick executed exactly once with its own sequence number, masked slots, overridden supervisor steps, the supervisor at step 0 and the final skipped tick executed zero times; jit on/off per node, carried-over episode starts, rollout and reset/step driving.", NOTE_ASYNC + " " + NOTE_COMP, "4/C06"),
 "C07": ("offline checker of the compiled schedule (Graph.timings) against an independent recomputation of windows, required vertex set and dependency order from graphs_raw",
         "Held-on-what-was-observed: for every built graph required ⊆ scheduled, nothing scheduled twice, per-kind order increasing, producers strictly earlier, supervisor step p closes partition p, slot fields equal the vertex's own; recorded ragged stacks and generated graphs, all modes x prune, user S_init.", NOTE_COMP, "4/C07"),
 "C08": ("payload-identity monitor on executed compiled graphs (witness tag = producer, seq) plus static ring-buffer replay of the schedule for automatic and user buffer sizes",
         "Held-on-what-was-observed: every window entry handed to a step carried the payload (producer, seq, hash) the schedule names or the default output; no read hit an overwritten slot for automatic sizes, admissible user sizes and extra padding, random starting episode/step.", NOTE_COMP, "4/C08"),
 "C09": ("differential monitor over API compositions: run^n, reset+step^n, rollout carry/full, jit vs eager, vmap vs single, step override, init overrides and clipping",
         "Held-on-what-was-observed: all compositions give identical GraphState leaves (integer witness state, exact) on generated graphs with several episodes; params/starting eps/step overrides are what the steps see; out-of-range indices equal the clipped index.", NOTE_COMP, "4/C09"),
 "C10": ("differential monitor: compiled graph with TrainableDist set to d (via create / init_delays) vs the same system with a static Deterministic(d) connection",
         "Held-on-what-was-observed: windows (seqs, payload hashes), states and outputs agree on vertices scheduled in both, window length == window, out-of-range d saturates; near-ties are excluded and counted; the known finding (window extension short under sender jitter) is classified by mechanism.", NOTE_COMP, "4/C10"),
 "C11": ("reference-model monitor: float64 piecewise-linear sender signal evaluated beside TrainableDist.apply_delay (both linear variants), continuity and finite-difference gradient checks on generated input states",
         "Held-on-what-was-observed: thousands of generated input states (windows, rates, delays incl. bounds, filled/unfilled slots, scalar/vector payloads, f32/i32) agree with the reference within 1e-4 of the signal range.", NOTE_PURE, "4/C11"),
 "C12": ("offline checker over generate_graphs / augment_graphs outputs (well-formedness rules recomputed in numpy) incl. zero-delay ties, mixtures, overruns, trainable connections",
         "Held-on-what-was-observed: every generated episode satisfies the vertex/edge rules; augmentation leaves existing arrays bit-identical and adds exactly the missing keys.", NOTE_PURE, "4/C12"),
 "C13": ("record-vs-host-trace monitor in both runtimes plus differential monitor recording on/off/truncated",
         "Held-on-what-was-observed: every recorded row equals what the witness step reported through the independent host trace, unexecuted rows stay -1, state chain holds, and enabling/disabling/truncating any record setting changes no state, buffer, observation or trace.", NOTE_ASYNC + " " + NOTE_COMP, "4/C13"),
 "C14": ("round-trip / conservation checker over conversions of recorded ragged experiments (to_graph, stack, getitem, filter, networkx)",
         "Held-on-what-was-observed: vertices/edges/times preserved exactly, padding only -1 at the tail, both stacking orders agree, filters keep exactly the selected nodes/connections and do not mutate their source, networkx node/edge sets equal the executed relations.", NOTE_PURE, "4/C14"),
 "C15": ("reference-model monitor: scipy float64 CDFs beside StaticDist/TrainableDist sample/quantile, replay checks, estimator output invariants (optional icontract layer on the real methods)",
         "Held-on-what-was-observed: non-negative samples, purity and replay of sampling, monotone quantiles agreeing with the true CDF (exact / grid resolution), default delay = 99th percentile, estimator returns proper distributions in data units; sequences of different mixtures in one process.", NOTE_PURE, "4/C15"),
 "C16": ("reference-model monitor: networkx longest-path phases recomputed after random connect/set_delay histories, info round trips, and short simulated episodes after set_delay",
         "Held-on-what-was-observed: phases/infos equal the reference within 1e-7 after every history step (reads interleaved with mutations), algebraic loops are reported, set_delay takes effect in simulation, round trips preserve infos/phases/connections.", NOTE_PURE, "4/C16"),
 "C17": ("round-trip and order-logging monitor over generated pytrees and transform chains",
         "Held-on-what-was-observed: inv(apply(x)) = x within rounding incl. very narrow bounds, denormalize endpoints/monotonicity, chain order (flat and nested) equals member-by-member application, extend fills exactly the None leaves.", NOTE_PURE, "4/C17"),
 "C18": ("history monitor: per-iteration candidates/losses/state of CEM and evosax strategies recorded and checked (bounds, monotone best = min finite loss so far, attainment, NaN never elite/best)",
         "Held-on-what-was-observed: across loss functions incl. NaN half-spaces, all-NaN generations, plateaus/ties, tight bounds, population sizes and strategies.", NOTE_PURE, "4/C18"),
 "C19": ("reference-model monitors run beside the real wrappers over scripted reward/termination/truncation histories",
         "Held-on-what-was-observed: Environment.step = graph.step, auto-reset, log accounting (termination-only, truncation-only, both), squash bounds/inverses, running mean/var incl. large-offset observations, for several wrapper stackings and batch sizes.", NOTE_PURE, "4/C19"),
 "C20": ("differential monitor: exported policy vs independent re-evaluation of the actor network on synthetic and really trained PPO results",
         "Held-on-what-was-observed: deterministic action and rng-sampled action equal the actor's (normalisation with clipping, squash/clip) for depths 1-4, widths 1-128, all activations, observations up to 1e4x the training range, non-zero log_std.", NOTE_PURE, "4/C20"),
}
BUILT = {k for k in CHECKS if os.path.exists(os.path.join(D, 'rexmon', 'monitors', k.lower() + '.py'))}
props = [json.loads(l) for l in open(os.path.join(D, "properties.jsonl"))]
checks = []
for p in props:
    pid = p["id"]
    if pid not in BUILT:
        continue
    tech, text, note, ref = CHECKS[pid]
    checks.append(dict(property_id=pid, quick_cmd=f"./check {pid} --tier quick", thorough_cmd=f"./check {pid} --tier thorough",
                       evidence_file=f"evidence/{pid}.json", replay_cmd_template=f"./check {pid} --replay {{path}}", engine="rexmon",
                       level_claimed=dict(category="exploration", text=text, design_ref=f"DESIGN.md section {ref}"),
                       level_note=note, technique=tech))
na = [dict(property_id=p["id"], reason="check not built yet in this session (runtime-monitoring design exists in DESIGN.md section 4); will be claimed once its monitor is committed")
      for p in props if p["id"] not in BUILT]
m = dict(version=1,
         setup_cmd="sh tools/setup.sh",
         hooks=dict(guard="REX_VERIF", enable="checks run the case processes with REX_VERIF=1 and PYTHONPATH=/repo first (REX_TREE overrides the tree for mutant self-tests); rex/_verif.py is inert unless REX_VERIF=1 and a callback is registered",
                    baseline_off_cmd="cd /repo && env -u REX_VERIF /venv/bin/python -m pytest -ra -q -p no:cacheprovider --timeout=900 --continue-on-collection-errors",
                    source_commits=hook_commits, add_only=True),
         engines=[dict(name="rexmon", path="rexmon/", serves_properties=sorted(BUILT), kind_free_text="runtime monitors: witness nodes, guarded hook callbacks (schedule perturbation, gates, quiescence detector), offline history checkers, reference-model and differential oracles; one subprocess per case")],
         checks=checks, not_applicable=na,
         notes="Technique family: runtime monitoring. See DESIGN.md. Known findings and fixed defects: known_findings.json.")
json.dump(m, open(os.path.join(D, "MANIFEST.json"), "w"), indent=1)
print("checks:", [c["property_id"] for c in checks], "not_applicable:", len(na))
