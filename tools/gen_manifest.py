#!/usr/bin/env python3
"""Regenerates MANIFEST.json from the table below (kept in one place so it stays valid at all times)."""
import json, os, subprocess
D = os.path.dirname(os.path.dirname(os.path.abspath(__file__)))
REPO_COMMITS = subprocess.check_output(["git", "-C", "/repo", "log", "--format=%h %s"]).decode().splitlines()
hook_commits = [l.split()[0] for l in REPO_COMMITS if l.split(" ", 1)[1].startswith("verif hooks")]

# pid -> (technique, level text, level note, design ref)
CHECKS = {
 "C03": ("offline checker over recorded episode histories (ordering, exactly-once, causality, policy re-evaluation in exact rationals) on perturbed AsyncGraph runs of generated witness graphs",
         "Held-on-what-was-observed: every recorded episode of the run is checked clause by clause (exactly-once in-order delivery, recv>=sent, consuming step per policy, gap-free non-overlapping steps, window contents and payload identity). Reach comes from random graphs incl. all policy combinations, heavy jitter, overruns and exact ties; nothing is claimed for graphs or schedules not produced.",
         "Trusts AsyncGraph.get_record() as the observation channel (cross-checked against the witness payload tags inside the recorded windows); G_all graphs that stall are counted as inconclusive.", "4/C03"),
}
BUILT = set(CHECKS)
props = [json.loads(l) for l in open(os.path.join(D, "properties.jsonl"))]
checks = []
for p in props:
    pid = p["id"]
    if pid not in BUILT:
        continue
    tech, text, note, ref = CHECKS[pid]
    checks.append(dict(property_id=pid, quick_cmd=f"./check {pid} --tier quick", thorough_cmd=f"./check {pid} --tier thorough",
                       evidence_file=f"evidence/{pid}.json", replay_cmd_template=f"./check {pid} --replay {{path}}", engine="rexmon",
                       level_claimed=dict(category="exploration", text=text, design_ref=f"DESIGN.md section {ref}"),
                       level_note=note, technique=tech))
na = [dict(property_id=p["id"], reason="check not built yet in this session (runtime-monitoring design exists in DESIGN.md section 4); will be claimed once its monitor is committed")
      for p in props if p["id"] not in BUILT]
m = dict(version=1,
         setup_cmd="sh tools/setup.sh",
         hooks=dict(guard="REX_VERIF", enable="checks run the case processes with REX_VERIF=1 and PYTHONPATH=/repo first (REX_TREE overrides the tree for mutant self-tests); rex/_verif.py is inert unless REX_VERIF=1 and a callback is registered",
                    baseline_off_cmd="cd /repo && env -u REX_VERIF /venv/bin/python -m pytest -ra -q -p no:cacheprovider --timeout=900 --continue-on-collection-errors",
                    source_commits=hook_commits, add_only=True),
         engines=[dict(name="rexmon", path="rexmon/", serves_properties=sorted(BUILT), kind_free_text="runtime monitors: witness nodes, guarded hook callbacks (schedule perturbation, gates, quiescence detector), offline history checkers, reference-model and differential oracles; one subprocess per case")],
         checks=checks, not_applicable=na,
         notes="Technique family: runtime monitoring. See DESIGN.md. Known findings and fixed defects: known_findings.json.")
json.dump(m, open(os.path.join(D, "MANIFEST.json"), "w"), indent=1)
print("checks:", [c["property_id"] for c in checks], "not_applicable:", len(na))
