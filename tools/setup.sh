#!/bin/sh
# Offline setup: byte-compile rexmon; install the optional contract libraries next to /verif (used only by the C15 contract layer).
cd "$(dirname "$0")/.."
/venv/bin/python -m compileall -q rexmon >/dev/null 2>&1 || true
if [ ! -d .deps/icontract ]; then
  /venv/bin/pip install -q --no-index --find-links /opt/veriftools/wheels --target .deps icontract deal >/dev/null 2>&1 || echo "note: contract libraries not installed (optional layer disabled)"
fi
mkdir -p evidence replays
exit 0
