#!/bin/bash
# try_seed.sh <seed dir> <PID> [tier] [seed]: run a check against a scratch worktree of /repo HEAD with the seeded patch applied.
# /repo itself is not touched (REX_TREE points the case processes at the scratch tree); no evidence file is written.
set -u
SD="$(realpath "$1")"; PID="$2"; TIER="${3:-quick}"; SEED="${4:-0}"; NAME="$(basename "$SD")"
WT="/tmp/mt/$NAME-$PID-$$"; mkdir -p /tmp/mt; git -C /repo worktree prune
git -C /repo worktree add -q --detach "$WT" HEAD || exit 2
git -C "$WT" apply "$SD/patch.diff" || { git -C /repo worktree remove --force "$WT"; echo "$NAME apply failed"; exit 2; }
cd "$(dirname "$0")/.." && REX_TREE="$WT" REXMON_NO_EVIDENCE=1 ./check "$PID" --tier "$TIER" --seed "$SEED" > "/tmp/mt/$NAME-$PID.log" 2>&1; RC=$?
git -C /repo worktree remove --force "$WT"
echo "$NAME vs $PID ($TIER, seed $SEED): rc=$RC $(grep -c '^VIOLATION' /tmp/mt/$NAME-$PID.log) violation line(s); $(grep -m1 'witness' /tmp/mt/$NAME-$PID.log | cut -c1-300)"
