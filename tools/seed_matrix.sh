#!/bin/bash
# seed_matrix.sh [tier] : run every seeded defect / revert mutant against the check of the property it breaks; writes seeded/MATRIX.tsv
cd "$(dirname "$0")/.."
TIER="${1:-quick}"
OUT="seeded/MATRIX.tsv"; : > "$OUT.tmp"
run_one() {
  d="$1"; pid=$(python3 -c "import json,sys; m=json.load(open('$d/meta.json')); print(m.get('breaks_property') or m.get('property'))")
  line=$(tools/try_seed.sh "$d" "$pid" "$TIER" 0 2>&1 | tail -1)
  rc=$(echo "$line" | sed -n 's/.*rc=\([0-9]*\).*/\1/p'); nv=$(echo "$line" | sed -n 's/.*rc=[0-9]* \([0-9]*\) violation.*/\1/p')
  mech=$(echo "$line" | sed -n 's/.*"mechanism": "\([^"]*\)".*/\1/p')
  echo -e "$(basename $d)\t$pid\t$TIER\trc=$rc\tviolation_lines=$nv\t$mech" >> "$OUT.tmp"
}
export -f run_one; export TIER OUT
ls -d seeded/C* mutants/* | xargs -P 3 -I{} bash -c 'run_one {}'
sort "$OUT.tmp" > "$OUT"; rm -f "$OUT.tmp"; cat "$OUT"
