#!/bin/bash
# sweep.sh <tier> <seed...> : run all 20 checks (or those in $CHECKS, e.g. "05 02 10") for each seed, print one line per (check, seed)
cd "$(dirname "$0")/.."
TIER="$1"; shift
for SEED in "$@"; do
  for i in ${CHECKS:-01 02 03 04 05 06 07 08 09 10 11 12 13 14 15 16 17 18 19 20}; do
    out=$(REXMON_NO_EVIDENCE=${NOEV:-1} ./check C$i --tier "$TIER" --seed "$SEED" 2>&1); rc=$?
    echo "C$i seed=$SEED rc=$rc $(echo "$out" | grep 'tier=' | sed 's/.*cases=/cases=/') $(echo "$out" | grep -c '^VIOLATION') viol $(echo "$out" | grep -m1 'INCONCLUSIVE' | cut -c1-200)"
    if [ $rc -ne 0 ]; then echo "$out" | grep "witness" | head -3 | cut -c1-600; fi
  done
done
