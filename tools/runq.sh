#!/bin/bash
# runq.sh PID [seed] [tier]: run a check and print only the decisive lines
cd "$(dirname "$0")/.."
./check "$1" --seed "${2:-0}" --tier "${3:-quick}" 2>&1 | grep "tier=\|HELD\|VIOLATION\|witness\|INCONCLUSIVE\|counters" | cut -c1-${COLS:-700}
echo "rc=${PIPESTATUS[0]}"
