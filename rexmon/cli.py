"""CLI: ./check <PID> [--tier quick|thorough] [--seed N] [--replay file]"""
import argparse
import os
import sys

from rexmon import orch


def main():
    ap = argparse.ArgumentParser()
    ap.add_argument("pid")
    ap.add_argument("--tier", default=os.environ.get("VERIF_TIER") or "quick", choices=["quick", "thorough"])
    ap.add_argument("--seed", type=int, default=int(os.environ.get("VERIF_SEED") or 0))
    ap.add_argument("--replay", default=None)
    ap.add_argument("--workers", type=int, default=None)
    a = ap.parse_args()
    sys.exit(orch.run_check(a.pid.upper(), a.tier, a.seed, replay=a.replay, workers=a.workers))


if __name__ == "__main__":
    main()
