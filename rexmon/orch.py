"""Orchestration: fan cases out to subprocesses, aggregate three-valued verdicts, write evidence and replay files.

One subprocess per case (subprocess.run(timeout=...), never multiprocessing.Pool). A timed-out case is inconclusive,
never a violation. Exit codes of a check: 0 held on everything explored, 1 violation (VIOLATION line), 2 inconclusive.
"""
import concurrent.futures as cf
import importlib
import json
import os
import subprocess
import sys
import tempfile
import time

VERIF_DIR = os.path.dirname(os.path.dirname(os.path.abspath(__file__)))
PY = os.environ.get("REXMON_PY", "/venv/bin/python")


def load_known():
    p = os.path.join(VERIF_DIR, "known_findings.json")
    if not os.path.exists(p):
        return []
    return json.load(open(p)).get("known", [])


def case_env():
    e = dict(os.environ)
    e["PYTHONPATH"] = VERIF_DIR + os.pathsep + e.get("PYTHONPATH", "")
    e.setdefault("JAX_PLATFORMS", "cpu")
    e["REX_VERIF"] = "1"
    e.setdefault("PYTHONHASHSEED", "0")
    e["PYTHONUNBUFFERED"] = "1"
    return e


def run_case_subprocess(pid, case, timeout, safe=False):
    """Returns (result dict or None, info dict). safe=True: retry mode with XLA's CPU fusion emitters off (env.py)."""
    fd, out = tempfile.mkstemp(prefix=f"rexmon-{pid}-", suffix=".json")
    os.close(fd)
    t0 = time.time()
    info = dict(timeout=False, rc=None, wall=0.0, tail="")
    try:
        e = case_env()
        if safe:
            e["REXMON_XLA_SAFE"] = "1"
        p = subprocess.run([PY, "-m", "rexmon.case", pid, json.dumps(case), out], env=e, cwd=VERIF_DIR,
                           stdout=subprocess.PIPE, stderr=subprocess.STDOUT, timeout=timeout)
        info["rc"] = p.returncode
        info["tail"] = p.stdout.decode(errors="replace")[-3000:]
    except subprocess.TimeoutExpired as ex:
        info["timeout"] = True
        info["tail"] = (ex.stdout or b"").decode(errors="replace")[-3000:]
    info["wall"] = round(time.time() - t0, 2)
    res = None
    try:
        if os.path.getsize(out) > 0:
            res = json.load(open(out))
    except Exception:
        res = None
    finally:
        try:
            os.unlink(out)
        except OSError:
            pass
    return res, info


def run_check(pid, tier, seed, replay=None, workers=None, verbose=True):
    mod = importlib.import_module(f"rexmon.monitors.{pid.lower()}")
    t0 = time.time()
    if replay:
        cases = [json.load(open(replay))["case"]]
    else:
        cases = mod.plan(tier, seed)
    workers = workers or int(os.environ.get("REXMON_WORKERS", getattr(mod, "WORKERS", 14)))
    known = [k for k in load_known() if k["property"] == pid]
    items, counters, samples = [], {}, []
    inconclusive, rejected, violations, known_hits = [], [], [], {}
    retry = []

    def absorb(case, res, info, final=False):
        if res is None:
            if not final:
                retry.append(case)
                return
            why = "timeout" if info["timeout"] else f"crashed rc={info['rc']}"
            inconclusive.append(dict(case=case, why=why, tail=info["tail"][-600:]))
            return
        for k, v in res.get("counters", {}).items():
            if isinstance(v, (int, float)):
                counters[k] = counters.get(k, 0) + v
        for s in res.get("samples", [])[:2]:
            if len(samples) < 6:
                samples.append(s)
        for it in res.get("items", []):
            it = dict(it)
            it["_case"] = case
            items.append(it)
            st = it.get("status")
            if st == "violated":
                mech = (it.get("witness") or {}).get("mechanism")
                kn = [k for k in known if k.get("mechanism") == mech and mech is not None]
                if kn:
                    known_hits.setdefault(mech, []).append(it)
                else:
                    violations.append(it)
            elif st == "inconclusive":
                inconclusive.append(dict(case=case, why=it.get("note", "inconclusive")))
            elif st == "rejected":
                rejected.append(it.get("note", ""))

    with cf.ThreadPoolExecutor(max_workers=workers) as ex:
        futs = {ex.submit(run_case_subprocess, pid, c, c.get("timeout", 300)): c for c in cases}
        for f in cf.as_completed(futs):
            c = futs[f]
            res, info = f.result()
            absorb(c, res, info)
            if verbose and res is None:
                print(f"[{pid}] case {c.get('name', '?')} -> no result ({'timeout' if info['timeout'] else info['rc']}) {info['wall']}s", flush=True)
    # retry timed-out / crashed cases once, alone (3x budget): a loaded machine must not turn into a verdict
    for c in retry:
        res, info = run_case_subprocess(pid, c, 3 * c.get("timeout", 300), safe=True)
        absorb(c, res, info, final=True)
        if verbose and res is None:
            print(f"[{pid}] retry of case {c.get('name', '?')} -> no result; tail:\n{info['tail'][-1500:]}", flush=True)

    nontrivial_keys = {it.get("key") for it in items if it.get("nontrivial") and it.get("status") in ("held", "violated")}
    conclusive = [it for it in items if it.get("status") in ("held", "violated")]
    wall = round(time.time() - t0, 2)
    min_nt = getattr(mod, "MIN_NONTRIVIAL", {}).get(tier, 2)
    deciding = getattr(mod, "DECIDING", [])
    zero_deciding = [k for k in deciding if counters.get(k, 0) == 0]

    # ---- replay files for violations
    os.makedirs(os.path.join(VERIF_DIR, "replays"), exist_ok=True)
    out_lines = []
    for v in violations:
        import hashlib

        dg = hashlib.sha1(json.dumps(v["_case"], sort_keys=True).encode()).hexdigest()[:10]
        path = os.path.join(VERIF_DIR, "replays", f"{pid}-{dg}.json")
        json.dump(dict(property=pid, case=v["_case"], witness=v.get("witness"), tier=tier, seed=seed), open(path, "w"), indent=1,
                  default=str)
        out_lines.append(f"VIOLATION property={pid} replay={path}")
    for k in known:
        n_hit = len(known_hits.get(k["mechanism"], []))
        seen = f"{n_hit} occurrence(s) in this run" if n_hit else "listed; not reproduced by the cases of this run"
        out_lines.append(f"KNOWN-FINDING: property={pid} {k['mechanism']} ({seen}): {k['description']}")

    status = "held"
    if violations:
        status = "violated"
    elif len(nontrivial_keys) < max(2, min_nt) or zero_deciding or not conclusive:
        status = "inconclusive"

    ev = dict(
        property_id=pid, tier=tier, seed=int(seed), level=getattr(mod, "LEVEL", "exploration"),
        coverage=dict(
            evaluations=len(items), distinct_nontrivial=len(nontrivial_keys), rule=mod.RULE,
            samples=samples if samples else [dict(note="no sample produced")],
            conclusive=len(conclusive), inconclusive_cases=len(inconclusive), rejected=len(rejected),
            known_finding_occurrences={k: len(v) for k, v in known_hits.items()},
            counters={k: (round(v, 6) if isinstance(v, float) else v) for k, v in sorted(counters.items())},
            cases=len(cases), verdict=status,
            inconclusive_reasons=sorted({i["why"][:80] for i in inconclusive})[:8],
        ),
        assumptions=getattr(mod, "ASSUMPTIONS", []),
        wall_s=wall, violations=len(violations),
    )
    if not replay and os.environ.get("REXMON_NO_EVIDENCE") != "1":
        os.makedirs(os.path.join(VERIF_DIR, "evidence"), exist_ok=True)
        json.dump(ev, open(os.path.join(VERIF_DIR, "evidence", f"{pid}.json"), "w"), indent=1, default=str)

    print(f"[{pid}] tier={tier} seed={seed} cases={len(cases)} evaluations={len(items)} conclusive={len(conclusive)} "
          f"distinct_nontrivial={len(nontrivial_keys)} rejected={len(rejected)} inconclusive={len(inconclusive)} "
          f"violations={len(violations)} wall={wall}s")
    print(f"[{pid}] counters: " + json.dumps(ev["coverage"]["counters"]))
    for ln in out_lines:
        print(ln)
    if violations:
        for v in violations[:5]:
            print(f"[{pid}] witness: " + json.dumps(v.get("witness"), default=str)[:1500])
        return 1
    if status == "inconclusive":
        print(f"INCONCLUSIVE property={pid} distinct_nontrivial={len(nontrivial_keys)} (min {min_nt}) zero_deciding={zero_deciding} "
              f"reasons={ev['coverage']['inconclusive_reasons']}")
        return 2
    print(f"[{pid}] HELD on everything explored")
    return 0
