"""A-scenarios: run witness graphs with rex.asynchronous.AsyncGraph under observation / perturbation."""
from rexmon import env  # noqa: F401

import hashlib
import random
import sys
import threading
import time

import jax
import numpy as onp

import rex._verif as rv
import rex.constants as const
from rex.asynchronous import AsyncGraph
from rexmon import specs as S
from rexmon import witness as W


def npz(tree):
    return jax.tree_util.tree_map(lambda x: onp.array(x), tree)


class Monitor:
    """Callback for the rex/_verif.py hook points: counts events, fingerprints the schedule, perturbs it, holds gates.

    Its own state is protected by one lock and it never calls back into rex.
    """

    def __init__(self, seed=0, p_sleep=0.0, max_sleep=0.004, slow_owner=None, slow_factor=10.0, user_sleep=None):
        self.lock = threading.Lock()
        self.rnd = random.Random(seed)
        self.p_sleep = p_sleep
        self.max_sleep = max_sleep
        self.slow_owner = slow_owner
        self.slow_factor = slow_factor
        self.user_sleep = user_sleep  # (p, max_s): pauses of the *user* thread at submit points (e.g. inside start())
        self.count = 0
        self.counts = {}
        self.order = []  # first 300 task_start events (owner, fn)
        self.errors = []
        self.gates = {}  # point name -> dict(armed, reached: Event, release: Event, timeout)
        self.sleeps = 0
        self.log = []  # (t, name) for gate-relevant points
        self.on_point = {}  # name -> callable() executed (outside the lock) when the point fires

    # -- gates
    def arm(self, name, timeout=20.0, once=True):
        g = dict(armed=True, reached=threading.Event(), release=threading.Event(), timeout=timeout, once=once, timed_out=False)
        with self.lock:
            self.gates[name] = g
        return g

    def disarm(self, name):
        with self.lock:
            g = self.gates.get(name)
            if g:
                g["armed"] = False
                g["release"].set()

    def __call__(self, name, ctx):
        sleep = 0.0
        gate = None
        with self.lock:
            self.count += 1
            self.counts[name] = self.counts.get(name, 0) + 1
            if name == "task_start" and len(self.order) < 300:
                self.order.append((ctx.get("owner"), ctx.get("fn")))
            if name == "task_error":
                self.errors.append(repr(ctx.get("error")))
            if name in ("submit", "task_start", "task_end") and self.p_sleep > 0:
                if self.rnd.random() < self.p_sleep:
                    sleep = self.rnd.uniform(0, self.max_sleep)
                if self.slow_owner is not None and ctx.get("owner") == self.slow_owner and name == "task_start":
                    sleep = max(sleep, self.rnd.uniform(0, self.max_sleep) * self.slow_factor)
            if self.user_sleep and name == "submit" and threading.current_thread().name in ("rexmon-user", "MainThread"):
                if self.rnd.random() < self.user_sleep[0]:
                    sleep = max(sleep, self.rnd.uniform(0, self.user_sleep[1]))
            g = self.gates.get(name)
            if g is not None and g["armed"]:
                gate = g
                if g["once"]:
                    g["armed"] = False
            if name.startswith(("sync.", "stop.", "obs.")):
                self.log.append((time.time(), name, threading.current_thread().name))
            fn = self.on_point.get(name)
        if fn is not None:
            fn()
        if gate is not None:
            gate["reached"].set()
            if not gate["release"].wait(gate["timeout"]):
                gate["timed_out"] = True
        if sleep > 0:
            self.sleeps += 1
            time.sleep(sleep)

    def fingerprint(self, n=200):
        with self.lock:
            o = list(self.order[:n])
        return hashlib.sha1(repr(o).encode()).hexdigest()[:12]

    def install(self):
        rv.set_callback(self)
        return self

    @staticmethod
    def uninstall():
        rv.set_callback(None)


class Quiescence:
    """Deadlock detector used by C05: quiescent == hook counter unchanged over an interval AND every rex worker thread
    parked (executor queue get / Future.result wait) AND the user thread inside a rex lifecycle call."""

    PARKED = ("_worker", "wait", "result", "get", "_wait_for_tstate_lock", "acquire")

    def __init__(self, monitor, user_thread_ident, interval=1.0):
        self.m = monitor
        self.uid = user_thread_ident
        self.interval = interval

    def sample(self):
        frames = sys._current_frames()
        names = {t.ident: t.name for t in threading.enumerate()}
        info = {}
        for ident, fr in frames.items():
            stack = []
            f = fr
            while f is not None:
                stack.append((f.f_code.co_filename, f.f_code.co_name, f.f_lineno))
                f = f.f_back
            info[ident] = (names.get(ident, "?"), stack)
        return info

    def check(self):
        """Returns None (not quiescent) or a dict describing the quiescent deadlock."""
        c0 = self.m.count
        s0 = self.sample()
        time.sleep(self.interval)
        c1 = self.m.count
        s1 = self.sample()
        if c0 != c1:
            return None
        blocked = {}
        for ident, (name, stack) in s1.items():
            if ident == threading.get_ident():
                continue
            top = stack[0]
            same = ident in s0 and s0[ident][1][:3] == stack[:3]
            if not same:
                return None
            in_rex = [fr for fr in stack if fr[0].endswith("rex/asynchronous.py")]
            if ident == self.uid:
                if not in_rex:
                    return None  # the user thread is not inside a lifecycle call
                blocked["user"] = [f"{fn}:{ln}" for (_, fn, ln) in in_rex]
            elif in_rex or "concurrent/futures/thread.py" in "".join(fr[0] for fr in stack):
                # worker: must be parked in queue.get (idle) or in Future.result()/lock wait
                if top[1] not in self.PARKED and "threading.py" not in top[0] and "queue.py" not in top[0]:
                    return None
                if in_rex:
                    blocked[name] = [f"{fn}:{ln}" for (_, fn, ln) in in_rex]
        if "user" not in blocked:
            return None
        return dict(count=c1, blocked=blocked)


def build_graph(spec, clock="sim", rtf=0, trace="io", hash_ts=True, record=None, max_records=400, jit_step=True, init_seed=0):
    nodes, sup = S.build(spec, trace=trace, hash_ts=hash_ts)
    if clock == "sim":
        g = AsyncGraph(nodes, sup, clock=const.Clock.SIMULATED, real_time_factor=rtf)
    else:
        g = AsyncGraph(nodes, sup, clock=const.Clock.WALL_CLOCK, real_time_factor=const.RealTimeFactor.REAL_TIME)
    rec = dict(params=True, rng=True, inputs=True, state=True, output=True) if record is None else dict(record)
    g.set_record_settings(max_records=max_records, **rec)
    gs0 = g.init(jax.random.PRNGKey(init_seed))
    g.warmup(gs0, jit_step=jit_step)
    return g, nodes, sup, gs0


def with_nonce(gs, nodes, nonce):
    import jax.numpy as jnp
    from flax.core import FrozenDict

    params = {k: W.WParams(nonce=jnp.int32(nonce)) for k in nodes}
    return gs.replace(params=FrozenDict(params))


def ss_summary(ss):
    """Numpy summary of a supervisor StepState (what the user observes)."""
    s = npz(ss)
    return dict(seq=int(s.seq), ts=float(s.ts), eps=int(s.eps), rng=s.rng.tolist(), st_h=int(s.state.h), st_cnt=int(s.state.cnt),
                inputs={k: dict(seq=v.seq.tolist(), ts_sent=v.ts_sent.tolist(), ts_recv=v.ts_recv.tolist(), d_src=v.data.src.tolist(),
                                d_seq=v.data.seq.tolist(), d_nonce=v.data.nonce.tolist(), d_h=v.data.h.tolist(), d_vec=v.data.vec.tolist())
                        for k, v in s.inputs.items()})


def run_episode(g, nodes, sup, gs0, mode, n, nonce, override=None, stop_sleep=0.03, stop=True, collect=True):
    """Run one episode. mode 'run': run^n; mode 'step': reset step^n. override: set of step indices where the supervisor's
    step is computed by the user and passed to step(gs, ss, output). Returns dict(obs=[...], record=..., trace=[...])."""
    W.trace_clear()
    gs = with_nonce(gs0, nodes, nonce)
    obs = []
    overridden = []
    if mode == "run":
        for i in range(n):
            gs = g.run(gs)
            obs.append(ss_summary(gs.step_state[sup.name]))
    else:
        gs, ss = g.reset(gs)
        obs.append(ss_summary(ss))
        for i in range(n):
            if override and i in override:
                # compute the supervisor's step on the user side with tracing disabled, then hand it in
                tr = sup.trace
                sup.trace = "none"
                try:
                    new_ss, out = sup.step(ss)
                finally:
                    sup.trace = tr
                overridden.append(int(onp.array(ss.seq)))
                gs, ss = g.step(gs, new_ss, out)
            else:
                gs, ss = g.step(gs)
            obs.append(ss_summary(ss))
    res = dict(obs=obs, overridden=overridden, mode=mode, n=n, nonce=nonce)
    if stop:
        if stop_sleep:
            time.sleep(stop_sleep)
        g.stop()
        if collect:
            try:
                jax.effects_barrier()
            except Exception:
                pass
            res["record"] = npz(g.get_record())
            res["trace"] = W.decode_trace(W.trace_snapshot(), S.input_layout(nodes))
    return res


class Stall(Exception):
    pass


def call_with_deadline(fn, seconds, *args, **kwargs):
    """Run fn in a helper thread; raise Stall if it does not return in time (the caller must then end the process)."""
    box = {}

    def _run():
        try:
            box["res"] = fn(*args, **kwargs)
        except BaseException as e:  # noqa
            box["err"] = e

    th = threading.Thread(target=_run, daemon=True, name="rexmon-user")
    th.start()
    th.join(seconds)
    if th.is_alive():
        raise Stall(f"no return within {seconds}s")
    if "err" in box:
        raise box["err"]
    return box["res"]


class LineYield:
    """Source-free perturbation (thorough tiers): sys.monitoring LINE events restricted to rex/asynchronous.py inject
    sleep(0) yields at seeded statement starts, to reach interleavings inside tasks."""

    def __init__(self, seed=0, p=0.05, max_sleep=0.0):
        import rex.asynchronous as ra

        self.max_sleep = max_sleep  # 0: sleep(0) (give up the GIL); > 0: a real pause of up to max_sleep seconds
        self.mon = sys.monitoring
        self.tool = self.mon.PROFILER_ID
        self.rnd = random.Random(seed)
        self.p = p
        self.lock = threading.Lock()
        self.lines = 0
        self.yields = 0
        self.target = ra.__file__

    def _on_line(self, code, lineno):
        if code.co_filename != self.target:
            return self.mon.DISABLE
        with self.lock:
            self.lines += 1
            y = self.rnd.random() < self.p
            dt = self.rnd.uniform(0, self.max_sleep) if (y and self.max_sleep > 0) else 0
        if y:
            self.yields += 1
            time.sleep(dt)

    def __enter__(self):
        self.mon.use_tool_id(self.tool, "rexmon-yield")
        self.mon.register_callback(self.tool, self.mon.events.LINE, self._on_line)
        self.mon.set_events(self.tool, self.mon.events.LINE)
        return self

    def __exit__(self, *a):
        self.mon.set_events(self.tool, 0)
        self.mon.register_callback(self.tool, self.mon.events.LINE, None)
        self.mon.free_tool_id(self.tool)


class LineGate:
    """Deterministic interleaving between two adjacent statements (sys.monitoring LINE events, no source change): thread A is
    held when it reaches the statement whose source text contains `hold_text` (inside function `hold_func`) until thread B reaches
    the statement containing `at_text` (inside `at_func`); B is then held until `until()` is true (or a timeout). Lines are
    located by their text, not their number. Both waits time out (the gate is then reported as missed, never as a hang)."""

    def __init__(self, hold_func, hold_text, at_func, at_text, until, snapshot=None, timeout=0.8):
        import inspect

        import rex.asynchronous as ra

        self.mon = sys.monitoring
        self.tool = self.mon.OPTIMIZER_ID
        self.target = ra.__file__
        src = inspect.getsource(ra).split("\n")

        def find(func, text):
            inside = False
            for i, l in enumerate(src, 1):
                if l.lstrip().startswith("def "):
                    inside = l.lstrip().startswith(f"def {func}(")
                if inside and text in l and not l.lstrip().startswith("#"):
                    return i
            return None

        self.l_hold, self.l_at = find(hold_func, hold_text), find(at_func, at_text)
        self.until, self.snapshot, self.timeout = until, snapshot, timeout  # timeout stays below the quiescence detector's window
        self.armed = False
        self.a_here, self.b_here = threading.Event(), threading.Event()
        self.held_a = self.held_b = 0
        self.b_satisfied = None

    def arm(self):
        self.a_here.clear()
        self.b_here.clear()
        self.armed = True

    def _on_line(self, code, lineno):
        if code.co_filename != self.target:
            return self.mon.DISABLE
        if not self.armed:
            return
        if lineno == self.l_hold and not self.a_here.is_set():
            self.a_here.set()
            self.held_a += 1
            self.b_here.wait(self.timeout)
        elif lineno == self.l_at and self.a_here.is_set() and not self.b_here.is_set():
            self.b_here.set()
            self.held_b += 1
            snap = self.snapshot() if self.snapshot else None
            t0 = time.time()
            while not self.until(snap) and time.time() - t0 < self.timeout:
                time.sleep(0.002)
            self.b_satisfied = bool(self.until(snap))
            self.armed = False

    def __enter__(self):
        self.mon.use_tool_id(self.tool, "rexmon-linegate")
        self.mon.register_callback(self.tool, self.mon.events.LINE, self._on_line)
        self.mon.set_events(self.tool, self.mon.events.LINE)
        return self

    def __exit__(self, *a):
        self.mon.set_events(self.tool, 0)
        self.mon.register_callback(self.tool, self.mon.events.LINE, None)
        self.mon.free_tool_id(self.tool)
