"""Witness nodes: every output identifies (producer, sequence number, episode nonce, hash of everything the step saw).

Design rules (DESIGN.md 2.3 / 3): integer mixing only; floats are bit-cast and copied, never computed with;
+-0.0 canonicalised; negative window sequence numbers are one class.
"""
from rexmon import env  # noqa: F401  (sets up the process environment)

import threading

import jax
import jax.numpy as jnp
import numpy as onp
from flax import struct
from jax.experimental import io_callback

from rex.base import Base
from rex.node import BaseNode

U32 = jnp.uint32

# Host-side trace: one numpy uint32 vector per executed step (appended by the callback).
TRACE = []
_TRACE_LOCK = threading.Lock()


def _host_append(vec):
    v = onp.array(vec, dtype=onp.uint32)
    with _TRACE_LOCK:
        TRACE.append(v)


def trace_clear():
    with _TRACE_LOCK:
        TRACE.clear()


def trace_snapshot():
    with _TRACE_LOCK:
        return list(TRACE)


@struct.dataclass
class WParams(Base):
    nonce: jax.Array


@struct.dataclass
class WState(Base):
    h: jax.Array
    cnt: jax.Array


@struct.dataclass
class WOut(Base):
    src: jax.Array
    seq: jax.Array
    nonce: jax.Array
    h: jax.Array
    vec: jax.Array  # uint32[3], a function of h (vec_of): a NON-scalar leaf, so that row-wise buffer handling is observable


VEC_X = 0x5BD1E995


def vec_of(h):
    """numpy/python reference of the vector payload that belongs to hash h"""
    h = int(h) & 0xFFFFFFFF
    return [h, (h ^ VEC_X) & 0xFFFFFFFF, ((h >> 7) | 1) & 0xFFFFFFFF]


def _bits(x):
    """float32 -> uint32 bits with +-0 canonicalised."""
    x = jnp.asarray(x, dtype=jnp.float32)
    x = jnp.where(x == 0, jnp.float32(0.0), x)
    return jax.lax.bitcast_convert_type(x, U32)


def _u(x):
    return jnp.asarray(x).astype(jnp.int32).astype(U32) if jnp.asarray(x).dtype != U32 else jnp.asarray(x)


def mix(a, b):
    a = (a ^ b) * U32(0x9E3779B1)
    return a ^ (a >> 15)


HEADER = ["idx", "eps", "seq", "ts", "rng0", "rng1", "nonce", "st_h", "st_cnt", "out_h", "rng0_new", "rng1_new"]
SLOT = ["seq", "ts_sent", "ts_recv", "d_src", "d_seq", "d_nonce", "d_h", "d_v0", "d_v1", "d_v2"]


class Witness(BaseNode):
    """A node whose step folds everything it is given into an integer hash."""

    def __init__(self, *args, idx=0, trace="io", hash_ts=True, **kwargs):
        super().__init__(*args, **kwargs)
        self.idx = int(idx)
        self.trace = trace  # "io" (ordered io_callback), "none"
        self.hash_ts = hash_ts
        self.delay_overrides = None  # {input_name: delay} returned by init_delays (C10: set a trainable delay through init_delays)
        self.ts_shift = 0.0  # the step returns step_state.ts + ts_shift (wall clock: "the sensor data was taken later")
        self.startup_sleep = 0.0  # seconds spent in startup() (C05: episode time must not include the start-up routine)

    def startup(self, graph_state, timeout=None):
        if self.startup_sleep:
            import time

            time.sleep(self.startup_sleep)
        return True

    def init_delays(self, rng=None, graph_state=None):
        d = super().init_delays(rng, graph_state)
        if self.delay_overrides:
            d = dict(d)
            d.update(self.delay_overrides)
        return d

    def init_params(self, rng=None, graph_state=None):
        # seed-dependent on purpose (so that "which params did the steps see" is observable); harnesses that need a fixed
        # nonce override it explicitly (drive_async.with_nonce)
        if rng is None:
            return WParams(nonce=jnp.int32(0))
        return WParams(nonce=jax.random.randint(rng, (), 0, 1 << 20, dtype=jnp.int32))

    @staticmethod
    def _nonce(params):
        return params.nonce if hasattr(params, "nonce") else params  # ScalarParamWitness: params is a bare int32 scalar

    def init_state(self, rng=None, graph_state=None):
        return WState(h=U32(0), cnt=jnp.int32(0))

    def init_output(self, rng=None, graph_state=None):
        return WOut(src=jnp.int32(self.idx), seq=jnp.int32(-1), nonce=jnp.int32(-1), h=U32(0), vec=jnp.zeros((3,), U32))

    def step(self, ss):
        rng, sub = jax.random.split(ss.rng)
        r = jax.random.bits(sub, dtype=U32)
        h = U32(self.idx + 1)
        h = mix(h, r)
        h = mix(h, _u(ss.seq))
        if self.hash_ts:
            h = mix(h, _bits(ss.ts))
        h = mix(h, _u(self._nonce(ss.params)))
        slots = []
        for name in sorted(ss.inputs.keys()):
            i = ss.inputs[name]
            for j in range(i.seq.shape[0]):
                sq = jnp.where(i.seq[j] < 0, -1, i.seq[j])
                h = mix(h, _u(sq))
                h = mix(h, _u(i.data.src[j]))
                h = mix(h, _u(i.data.seq[j]))
                h = mix(h, _u(i.data.nonce[j]))
                h = mix(h, _u(i.data.h[j]))
                for q in range(3):
                    h = mix(h, _u(i.data.vec[j][q]))
                if self.hash_ts:
                    h = mix(h, _bits(i.ts_sent[j]))
                    h = mix(h, _bits(i.ts_recv[j]))
                slots += [_u(sq), _bits(i.ts_sent[j]), _bits(i.ts_recv[j]), _u(i.data.src[j]), _u(i.data.seq[j]),
                          _u(i.data.nonce[j]), _u(i.data.h[j]), _u(i.data.vec[j][0]), _u(i.data.vec[j][1]), _u(i.data.vec[j][2])]
        h = mix(h, _u(ss.state.h))
        new_state = WState(h=h, cnt=jnp.asarray(ss.state.cnt, jnp.int32) + 1)
        vec = jnp.stack([h, h ^ U32(VEC_X), (h >> 7) | U32(1)])
        out = WOut(src=jnp.int32(self.idx), seq=jnp.asarray(ss.seq, jnp.int32), nonce=jnp.asarray(self._nonce(ss.params), jnp.int32), h=h, vec=vec)
        if self.trace == "io":
            rb = jnp.asarray(ss.rng).astype(U32).reshape(-1)
            rn = jnp.asarray(rng).astype(U32).reshape(-1)
            vec = jnp.stack(
                [U32(self.idx), _u(ss.eps), _u(ss.seq), _bits(ss.ts), rb[0], rb[1], _u(self._nonce(ss.params)), _u(ss.state.h),
                 _u(ss.state.cnt), h, rn[0], rn[1]] + slots
            )
            io_callback(_host_append, None, vec, ordered=True)
        if self.ts_shift:
            return ss.replace(rng=rng, state=new_state, ts=ss.ts + jnp.asarray(self.ts_shift, jnp.asarray(ss.ts).dtype)), out
        return ss.replace(rng=rng, state=new_state), out


def decode_trace(vecs, input_layout):
    """Decode raw trace vectors. input_layout: {idx: [(input_name, window), ...] sorted by input name}."""
    out = []
    for v in vecs:
        d = {k: int(v[i]) for i, k in enumerate(HEADER)}
        for k in ("seq", "eps", "nonce", "st_cnt"):
            d[k] = int(onp.int32(onp.uint32(d[k])))
        d["ts"] = float(onp.array([v[3]], dtype=onp.uint32).view(onp.float32)[0])
        pos = len(HEADER)
        ins = {}
        for name, w in input_layout[d["idx"]]:
            rows = []
            for j in range(w):
                s = v[pos:pos + len(SLOT)]
                pos += len(SLOT)
                rows.append(dict(
                    seq=int(onp.int32(s[0])), ts_sent=float(s[1:2].view(onp.float32)[0]), ts_recv=float(s[2:3].view(onp.float32)[0]),
                    d_src=int(onp.int32(s[3])), d_seq=int(onp.int32(s[4])), d_nonce=int(onp.int32(s[5])), d_h=int(s[6]), d_vec=[int(s[7]), int(s[8]), int(s[9])]))
            ins[name] = rows
        d["inputs"] = ins
        out.append(d)
    return out


class ScalarParamWitness(Witness):
    """A witness whose params is a bare scalar (no dataclass): overrides may then be falsy values such as 0."""

    def init_params(self, rng=None, graph_state=None):
        return jnp.int32(5)
