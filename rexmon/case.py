"""Entry point of a case subprocess: python -m rexmon.case <PID> '<case json>' <result path>."""
from rexmon import env  # noqa: F401  (must be first)

import faulthandler
import importlib
import json
import os
import sys
import traceback


def main():
    pid, case, out = sys.argv[1], json.loads(sys.argv[2]), sys.argv[3]
    # inner watchdog: dump stacks shortly before the orchestrator's timeout would fire (inconclusive, not a violation)
    faulthandler.dump_traceback_later(max(5, int(case.get("timeout", 300)) - 3), exit=False)
    env.assert_tree()
    mod = importlib.import_module(f"rexmon.monitors.{pid.lower()}")
    try:
        res = mod.run_case(case)
    except Exception:
        tb = traceback.format_exc()
        print(tb, flush=True)
        res = dict(items=[dict(status="inconclusive", key="harness-error", nontrivial=False, note="harness exception: " + tb[-400:])],
                   counters={"harness_errors": 1})
    with open(out, "w") as f:
        json.dump(res, f, default=str)
    sys.stdout.flush()
    os._exit(0)  # worker threads of a hung graph must not keep the process alive


if __name__ == "__main__":
    main()
