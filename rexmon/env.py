"""Process environment for case subprocesses. Import this module FIRST (before jax / rex)."""
import os
import sys
import warnings

os.environ.setdefault("JAX_PLATFORMS", "cpu")
os.environ.setdefault("REX_VERIF", "1")
os.environ.setdefault("OMP_NUM_THREADS", "1")
os.environ.setdefault("OPENBLAS_NUM_THREADS", "1")
os.environ.setdefault("XLA_FLAGS", "--xla_cpu_multi_thread_eigen=false")
if os.environ.get("REXMON_XLA_SAFE") == "1" and "xla_cpu_use_fusion_emitters" not in os.environ["XLA_FLAGS"]:
    # The installed jaxlib's CPU fusion emitter crashes (LLVM IR verification: "Incorrect number of arguments passed to called
    # function ... dynamic_slice", then SIGSEGV) on some compiled rollouts with trainable-delay windows. The orchestrator
    # retries a crashed case with the fusion emitters off; this changes how XLA compiles, not what rex computes.
    os.environ["XLA_FLAGS"] += " --xla_cpu_use_fusion_emitters=false"
os.environ.setdefault("TF_CPP_MIN_LOG_LEVEL", "3")
warnings.filterwarnings("ignore")

VERIF_DIR = os.path.dirname(os.path.dirname(os.path.abspath(__file__)))
REX_TREE = os.environ.get("REX_TREE", "/repo")
# The tree under test goes first on sys.path so that `import rex` resolves to it (and not to the editable install).
if REX_TREE not in sys.path:
    sys.path.insert(0, REX_TREE)
if VERIF_DIR not in sys.path:
    sys.path.insert(1, VERIF_DIR)


def assert_tree():
    import rex

    got = os.path.dirname(os.path.dirname(os.path.abspath(rex.__file__)))
    want = os.path.abspath(REX_TREE)
    if os.path.realpath(got) != os.path.realpath(want):
        raise RuntimeError(f"rex imported from {got}, expected {want}")
    import rex._verif as v

    if not v.ENABLED:
        raise RuntimeError("REX_VERIF hooks are not enabled")
    return got
