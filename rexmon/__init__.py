"""rexmon: runtime monitors for bheijden/rex (see /verif/DESIGN.md)."""
