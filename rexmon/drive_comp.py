"""K-scenarios: build rex.graph.Graph from recorded or generated computation graphs and run witnesses in it."""
from rexmon import env  # noqa: F401

import time

import jax
import jax.numpy as jnp
import numpy as onp

import rex.constants as const
from rex import base
from rex.graph import Graph
from rexmon import drive_async as D
from rexmon import specs as S
from rexmon import witness as W

MODES = {"mcs": const.Supergraph.MCS, "gen": const.Supergraph.GENERATIONAL, "top": const.Supergraph.TOPOLOGICAL}
npz = D.npz


class Rejected(Exception):
    """rex refused the configuration with an explicit exception (DESIGN.md 5.3) -- not a violation."""


class CompileError(Rejected):
    """Graph() failed with an unexpected exception: a C07 matter; every other check counts it as rejected."""


def record_experiment(spec, lengths, init_seed=0, mode="run", monitor=None, trace="io", jit_step=True, max_records=400, deadline=90):
    """Run len(lengths) episodes of an A-scenario; returns dict(nodes, sup, gs0, episodes=[run_episode results])."""
    g, nodes, sup, gs0 = D.build_graph(spec, clock="sim", rtf=0, trace=trace, max_records=max_records, jit_step=jit_step, init_seed=init_seed)
    gs0 = D.with_nonce(gs0, nodes, 0)  # the async episodes and the compiled replay start from the very same params
    eps = []
    for e, n in enumerate(lengths):
        m = mode if isinstance(mode, str) else mode[e]
        try:
            r = D.call_with_deadline(D.run_episode, deadline, g, nodes, sup, gs0, m, n, 0)  # nonce 0: same initial params every episode
        except TypeError as ex:
            raise Rejected(f"empty record: {ex}")
        eps.append(r)
    return dict(g=g, nodes=nodes, sup=sup, gs0=gs0, episodes=eps)


def experiment_graph(episodes):
    exp = base.ExperimentRecord(episodes=[e["record"] for e in episodes])
    return exp, exp.to_graph()


def build_compiled(nodes, sup, cg, mode="mcs", prune=True, **kw):
    try:
        return Graph(nodes, sup, cg, supergraph=MODES[mode], prune=prune, progress_bar=False, **kw)
    except KeyError as ex:
        raise Rejected(f"KeyError in Graph(): {ex}")
    except ValueError as ex:
        if "no nodes in the partition" in str(ex):
            raise Rejected(str(ex))
        raise
    except Exception as ex:  # NetworkXUnfeasible / AssertionError inside the supergraph library, ...
        # Any other failure to compile is decided by C07 (see DESIGN.md 5); C01/C06/C08/... count it as rejected.
        raise CompileError(f"{type(ex).__name__} in Graph(): {ex}")


def diagnose_compile_error(nodes, sup, cg):
    """Is the failure caused by to_connected_graph closing a cycle (prune=False, zero-delay tie)?"""
    import networkx as nx

    import rex.utils as ru

    wg = ru.apply_window(nodes, cg).to_graph()
    out = []
    for e in range(len(wg)):
        Gx = ru.to_networkx_graph(wg[e], nodes=nodes)
        dag = nx.is_directed_acyclic_graph(Gx)
        Gc = ru.to_connected_graph(Gx, sup, nodes)
        dagc = nx.is_directed_acyclic_graph(Gc)
        cyc = None
        if dag and not dagc:
            cyc = [(u, v, float(Gc.nodes[u]["ts_end"]), float(Gc.nodes[v]["ts_start"])) for u, v in nx.find_cycle(Gc)]
        out.append(dict(episode=e, windowed_graph_acyclic=dag, connected_graph_acyclic=dagc, cycle=cyc))
    return out


def generated_graph(spec, ts_max=1.0, num_episodes=3, seed=0, trace="io", hash_ts=True):
    from rex.artificial import generate_graphs

    nodes, sup = S.build(spec, trace=trace, hash_ts=hash_ts)
    cg = generate_graphs(nodes, ts_max=ts_max, rng=jax.random.PRNGKey(seed), num_episodes=num_episodes)
    return nodes, sup, cg


def timings_np(G):
    return jax.tree_util.tree_map(onp.array, G.timings)


def schedule(G):
    """Per episode: list of scheduled slot executions dict(kind, seq, partition, generation, slot) inside the horizon."""
    T = timings_np(G)
    n_eps = G.max_eps
    n_part = next(iter(T.slots.values())).run.shape[-1]
    out = []
    for e in range(n_eps):
        rows = []
        for sn, sl in T.slots.items():
            for p in range(n_part):
                if sl.run[e, p]:
                    rows.append(dict(kind=sl.kind, seq=int(sl.seq[e, p]), partition=p, generation=sl.generation, slot=sn))
        out.append(rows)
    return out, n_part


def compiled_init(G, gs0, eps=0, rng=None, **kw):
    """Graph.init with rng/params/state replaced by the async initial ones."""
    c0 = G.init(rng if rng is not None else jax.random.PRNGKey(0), starting_eps=eps, **kw)
    return c0.replace(rng=gs0.rng, params=gs0.params, state=gs0.state)


def record_flags(G, nodes, value=True):
    sched = {sl.kind for sl in G.timings.slots.values()}
    return {n: (value and n in sched) for n in nodes}
