"""C06 — every scheduled step executes the user's step exactly once (host-side execution counter vs record / schedule)."""
import random
from collections import Counter

import numpy as onp

RULE = ("witness step functions report every execution (node, seq seen by the step, nonce) to the host through an ordered "
        "io_callback; async cases: random G_live graphs, jit on/off per node, histories run^n / reset step^n with user-overridden "
        "supervisor steps / episodes started from a carried-over graph state; compiled cases: generated and recorded (ragged) "
        "computation graphs, all supergraph modes x prune, driven by jit(rollout), reset/step with overrides and step() directly "
        "after init; one evaluation = one episode whose execution multiset is compared with the record / schedule; non-trivial = "
        "episode with >=1 overridden supervisor step, >=1 masked slot, or a carried-over start; distinct by spec digest x "
        "episode x driving mode")
RULE += ' Built later: compiled rollouts after a late start (starting_step > 0); ragged stacks whose shortest episode is not the first.'
RULE += ' Built later: async graphs run with three record settings (everything / none, which is the default / everything but outputs): the tick set of the record at stop() depends on it.'
MIN_NONTRIVIAL = {"quick": 10, "thorough": 100}
DECIDING = ["calls_observed", "ticks_expected"]
ASSUMPTIONS = ["jax's ordered io_callback fires exactly once per executed call site (validated on the prototype: once per scheduled "
               "vertex in all three supergraph modes; the pinned tree's double execution showed as multiplicity 2)",
               "compiled runtime un-vmapped only (the property excludes vmap)"]
LEVEL = "exploration"


def compare(expected: Counter, observed: Counter, label):
    """expected: Counter{(node, seq): 1}; observed: Counter from the host trace. Returns list of violations."""
    V = []
    for k, c in observed.items():
        e = expected.get(k, 0)
        if c != e:
            V.append(dict(clause="executed_%d_times_expected_%d" % (c, e) if e else "unexpected_execution", where=label, node=k[0], seq=k[1],
                          observed=c, expected=e))
    for k, e in expected.items():
        if observed.get(k, 0) == 0 and e > 0:
            V.append(dict(clause="scheduled_step_not_executed", where=label, node=k[0], seq=k[1], expected=e))
    return V


# ------------------------------------------------------------------------------------------------ async
def run_async(case):
    from rexmon import drive_async as D
    from rexmon import specs as S
    from rexmon import witness as W

    rnd = random.Random(case["spec_seed"])
    spec = S.rand_live(case["spec_seed"])
    dg = S.digest(spec)
    jit_step = {n["name"]: rnd.random() < 0.6 for n in spec["nodes"]}
    # record settings: everything / rex's own default (no optional field) / everything but outputs. Whether outputs are recorded
    # changes how push_step files the ticks that are still queued when stop() arrives, so the tick set of the record differs.
    off = dict(params=False, rng=False, inputs=False, state=False, output=False)
    recset = random.Random(case["spec_seed"] + 77).choice([None, off, off, dict(params=True, rng=True, inputs=True, state=True, output=False)])
    g, nodes, sup, gs0 = D.build_graph(spec, clock="sim", rtf=0, jit_step=jit_step, max_records=1000, init_seed=case["spec_seed"], record=recset)
    m = D.Monitor(seed=case["spec_seed"], p_sleep=0.05, max_sleep=0.002).install()
    idx2name = {n.idx: k for k, n in nodes.items()}
    items, counters, samples = [], Counter(), []
    last_gs = None
    plan_eps = [("run", rnd.randint(4, 10), False), ("step", rnd.randint(4, 10), False), ("run", rnd.randint(3, 8), True), ("step", rnd.randint(3, 8), True)]
    for ep, (mode, n, carry) in enumerate(plan_eps):
        override = set(i for i in range(n) if rnd.random() < 0.4) if mode == "step" else None
        start = gs0
        if carry and last_gs is not None:
            start = last_gs
        nonce = 300 + ep
        try:
            r = D.call_with_deadline(_episode, 90, g, nodes, sup, start, mode, n, nonce, override)
        except D.Stall as e:
            items.append(dict(status="inconclusive", key=f"{dg}/{ep}", nontrivial=False, note=f"stall: {e}"))
            break
        except TypeError as e:
            items.append(dict(status="rejected", key=f"{dg}/{ep}", nontrivial=False, note=f"empty record: {e}"[:120]))
            continue
        last_gs = r["final_gs"]
        rec = r["record"]
        expected = Counter()
        for name, nr in rec.nodes.items():
            K = len(nr.steps.seq)
            for k in range(K):
                expected[(name, int(nr.steps.seq[k]))] = 1
        # supervisor: ticks >= n are never executed (the final tick is skipped on stop); overridden ticks execute zero times
        for k in list(expected):
            if k[0] == sup.name and (k[1] >= n or k[1] in set(r["overridden"])):
                expected[k] = 0
        observed = Counter((idx2name[d["idx"]], d["seq"]) for d in r["trace"])
        # ticks executed after the record was cut (max_records) are outside the property
        V = compare(expected, observed, f"async ep{ep} {mode}")
        wrong_nonce = [d for d in r["trace"] if d["nonce"] != nonce]
        if wrong_nonce:
            V.append(dict(clause="execution_with_foreign_params", n=len(wrong_nonce)))
        if m.errors:
            V.append(dict(clause="worker_exception", errors=m.errors[:2]))
            m.errors.clear()
        counters["calls_observed"] += sum(observed.values())
        counters["ticks_expected"] += sum(1 for v in expected.values() if v)
        counters["overridden_ticks"] += len(r["overridden"])
        counters["unjitted_nodes"] += sum(1 for v in jit_step.values() if not v)
        nontriv = bool(r["overridden"]) or (carry and ep > 0)
        key = f"{dg}/{ep}/{mode}/{'carry' if carry else 'fresh'}"
        if V:
            items.append(dict(status="violated", key=key, nontrivial=nontriv, witness=dict(mechanism=V[0]["clause"], violations=V[:5], spec=spec, episode=ep,
                                                                                         mode=mode, n=n, override=sorted(override or []), carry=carry, jit_step=jit_step)))
        else:
            items.append(dict(status="held", key=key, nontrivial=nontriv))
        if ep == 1:
            samples.append(dict(kind="async", spec_digest=dg, mode=mode, n=n, overridden=r["overridden"], calls=sum(observed.values()), jit_step=jit_step))
    return dict(items=items, counters=dict(counters), samples=samples)


def _episode(g, nodes, sup, start, mode, n, nonce, override):
    """like drive_async.run_episode but keeps the final graph state (for carried-over starts)."""
    import time

    import jax

    from rexmon import drive_async as D
    from rexmon import specs as S
    from rexmon import witness as W

    W.trace_clear()
    gs = D.with_nonce(start, nodes, nonce)
    overridden = []
    if mode == "run":
        for i in range(n):
            gs = g.run(gs)
    else:
        gs, ss = g.reset(gs)
        for i in range(n):
            if override and i in override:
                tr = sup.trace
                sup.trace = "none"
                try:
                    new_ss, out = sup.step(ss)
                finally:
                    sup.trace = tr
                overridden.append(int(onp.array(ss.seq)))
                gs, ss = g.step(gs, new_ss, out)
            else:
                gs, ss = g.step(gs)
    final_gs = gs
    time.sleep(0.02)
    g.stop()
    jax.effects_barrier()
    return dict(record=D.npz(g.get_record()), trace=W.decode_trace(W.trace_snapshot(), S.input_layout(nodes)), overridden=overridden, final_gs=final_gs)


# ------------------------------------------------------------------------------------------------ compiled
def run_comp(case):
    import jax

    from rexmon import drive_comp as C
    from rexmon import specs as S
    from rexmon import witness as W

    rnd = random.Random(case["spec_seed"])
    items, counters, samples = [], Counter(), []
    if case["kind"] == "comp-gen":
        spec = S.rand_gen(case["spec_seed"])
        nodes, sup, cg = C.generated_graph(spec, ts_max=rnd.choice([0.6, 1.0]), num_episodes=2, seed=case["spec_seed"])
        gs0 = None
    else:
        spec = S.rand_live(case["spec_seed"], allow_advance=rnd.random() < 0.5)
        try:
            lens = [rnd.randint(4, 7), rnd.randint(8, 11)] + ([rnd.randint(5, 9)] if rnd.random() < 0.4 else [])
            rnd.shuffle(lens)  # the shortest episode is not always the first one
            ex = C.record_experiment(spec, lengths=lens, init_seed=case["spec_seed"], trace="io")
        except (C.Rejected, C.D.Stall) as e:
            return dict(items=[dict(status="rejected", key=S.digest(spec), nontrivial=False, note=str(e)[:120])], counters={})
        nodes, sup, gs0 = ex["nodes"], ex["sup"], ex["gs0"]
        _, cg = C.experiment_graph(ex["episodes"])
    dg = S.digest(spec)
    mode = case.get("mode") or rnd.choice(["mcs", "gen", "top"])
    prune = rnd.random() < 0.5
    try:
        G = C.build_compiled(nodes, sup, cg, mode=mode, prune=prune)
    except C.Rejected as e:
        return dict(items=[dict(status="rejected", key=dg, nontrivial=False, note=str(e)[:120])], counters={"rejected_graph": 1})
    sched, n_part = C.schedule(G)
    idx2name = {n.idx: k for k, n in nodes.items()}
    N = G.max_steps
    roll = jax.jit(G.rollout)
    step_j, reset_j = jax.jit(G.step), jax.jit(G.reset)
    for e in range(G.max_eps):
        c0 = G.init(jax.random.PRNGKey(case["spec_seed"]), starting_eps=e)
        if gs0 is not None:
            c0 = c0.replace(rng=gs0.rng, params=gs0.params, state=gs0.state)
        masked = sum(1 for sn, sl in C.timings_np(G).slots.items() for p in range(N) if not sl.run[e, p])
        for drive in ("rollout", "step", "late"):
            W.trace_clear()
            expected = Counter()
            overridden = []
            if drive == "late":
                # late start: init(starting_step=s0) -- every executed tick must still carry its own sequence number
                if N < 3:
                    continue
                s0 = rnd.randint(1, N - 1)
                cl = G.init(jax.random.PRNGKey(case["spec_seed"]), starting_eps=e, starting_step=s0)
                if gs0 is not None:
                    cl = cl.replace(rng=gs0.rng, params=gs0.params, state=gs0.state)
                out = jax.jit(lambda g: G.rollout(g, max_steps=N - s0))(cl)
                jax.block_until_ready(out)
                parts = range(s0, N)
                sup_ticks = set(range(s0, N))
            elif drive == "rollout":
                out = roll(c0)
                jax.block_until_ready(out)
                parts = range(N)
                sup_ticks = set(range(N))
            else:
                # step() directly after init: the supervisor must NOT run (step == 0), partition 0 runs
                gs, ss = step_j(c0)
                k = min(N - 1, 5)
                for i in range(k):
                    if rnd.random() < 0.5:
                        tr = sup.trace
                        sup.trace = "none"
                        try:
                            new_ss, o = sup.step(ss)
                        finally:
                            sup.trace = tr
                        overridden.append(i)
                        gs, ss = G.step(gs, new_ss, o)  # override path (eager: the override is a python-level branch)
                    else:
                        gs, ss = step_j(gs)
                jax.block_until_ready(gs)
                parts = range(k + 1)
                sup_ticks = set(range(k)) - set(overridden)
            jax.effects_barrier()
            for row in sched[e]:
                if row["partition"] in parts:
                    if row["kind"] == sup.name:
                        expected[(row["kind"], row["seq"])] = 1 if row["seq"] in sup_ticks else 0
                    else:
                        expected[(row["kind"], row["seq"])] += 1
            observed = Counter((idx2name[d["idx"]], d["seq"]) for d in W.decode_trace(W.trace_snapshot(), S.input_layout(nodes)))
            V = compare(expected, observed, f"compiled eps{e} {drive} {mode} prune={prune}")
            counters["calls_observed"] += sum(observed.values())
            counters["ticks_expected"] += sum(1 for v in expected.values() if v)
            counters["masked_slots"] += masked
            counters["overridden_ticks"] += len(overridden)
            nontriv = masked > 0 or bool(overridden) or drive == "late"
            key = f"{dg}/{mode}/{prune}/{e}/{drive}"
            if V:
                items.append(dict(status="violated", key=key, nontrivial=nontriv, witness=dict(mechanism=V[0]["clause"], violations=V[:5], spec=spec, mode=mode,
                                                                                             prune=prune, episode=e, drive=drive, overridden=overridden, source=case["kind"])))
            else:
                items.append(dict(status="held", key=key, nontrivial=nontriv))
        if e == 0:
            samples.append(dict(kind=case["kind"], spec_digest=dg, mode=mode, prune=prune, partitions=n_part, masked_slots=masked, slots=len(G.timings.slots)))
    return dict(items=items, counters=dict(counters), samples=samples)


def plan(tier, seed):
    na, ng, nr = (16, 8, 6) if tier == "quick" else (250, 80, 60)
    cases = [dict(name=f"async-{i}", kind="async", spec_seed=seed * 100043 + i, timeout=300) for i in range(na)]
    modes = ["mcs", "gen", "top"]
    cases += [dict(name=f"gen-{i}", kind="comp-gen", spec_seed=seed * 100043 + 1000 + i, mode=modes[i % 3], timeout=600) for i in range(ng)]
    cases += [dict(name=f"rec-{i}", kind="comp-rec", spec_seed=seed * 100043 + 2000 + i, mode=modes[i % 3], timeout=600) for i in range(nr)]
    return cases


def run_case(case):
    if case["kind"] == "async":
        return run_async(case)
    return run_comp(case)
