"""C03 — recorded episodes are causal and loss-free on every connection (offline checker over episode records)."""
import math
from fractions import Fraction

import numpy as onp

RULE = ("random G_all witness graphs (2-5 nodes, blocking x skip x jitter x window x advance x scheduling, heavy jitter, overruns, "
        "zero-delay commensurate-rate ties) run by AsyncGraph under the simulated clock (plus short wall-clock episodes in the "
        "thorough tier); one evaluation = one recorded episode checked clause by clause; non-trivial = >=50 messages and >=1 "
        "connection not consumed 1:1; distinct by spec digest x episode")
MIN_NONTRIVIAL = {"quick": 12, "thorough": 150}
DECIDING = ["msgs", "steps", "windows_checked"]
ASSUMPTIONS = ["records come from AsyncGraph.get_record() of the tree under test; the oracle recomputes the policy from primary "
               "fields (ts_start, ts_recv, seq_out, seq_in) and the node/connection configuration only",
               "1e-6 tolerance where the unrounded ts_sent meets the microsecond-rounded ts_recv; blocking ticks within 2e-6 of a "
               "window boundary accept either neighbouring step"]
LEVEL = "exploration"


def W_vec_of(h):
    from rexmon.witness import vec_of

    return vec_of(h)


def F6(x):
    return Fraction(int(round(float(x) * 1e6)), 10**6)


def conn_of(node, out_name):
    for k, cc in node.inputs.items():
        if cc.output_node.name == out_name:
            return k, cc
    raise KeyError(out_name)


def check_record(rec, nodes, stats, wall_clock=False, own_nonce=None, check_windows=True):
    """rec: EpisodeRecord as numpy. nodes: name -> BaseNode (witness). Returns list of violation dicts."""
    V = []

    def bad(clause, **kw):
        V.append(dict(clause=clause, **kw))

    R = rec.nodes
    for n, r in R.items():
        s = r.steps
        node = nodes[n]
        K = len(s.seq)
        stats["steps"] = stats.get("steps", 0) + K
        if not onp.array_equal(onp.array(s.seq), onp.arange(K)):
            bad("seq_gap", node=n, seq=onp.array(s.seq)[:12].tolist())
            continue
        ts, te = onp.array(s.ts_start, float), onp.array(s.ts_end, float)
        ov = te[:-1] > ts[1:] + 1e-9
        if ov.any():
            k = int(onp.argmax(ov))
            bad("overlap", node=n, k=k, ts_end=float(te[k]), ts_start_next=float(ts[k + 1]))
        for m, ir in r.inputs.items():
            key, c = conn_of(node, m)
            msg = ir.messages
            so, si = onp.array(msg.seq_out), onp.array(msg.seq_in)
            tsent, trecv = onp.array(msg.ts_sent, float), onp.array(msg.ts_recv, float)
            M = len(so)
            stats["msgs"] = stats.get("msgs", 0) + M
            cid = f"{m}->{n}"
            if not onp.array_equal(so, onp.arange(M)):
                bad("delivery_not_exactly_once_in_order", conn=cid, seq_out=so[:12].tolist())
                continue
            if (trecv < tsent - 1e-6).any():
                j = int(onp.argmax(trecv < tsent - 1e-6))
                bad("recv_before_sent", conn=cid, j=j, ts_sent=float(tsent[j]), ts_recv=float(trecv[j]))
            if (onp.diff(trecv) < -1e-9).any():
                bad("ts_recv_reordered", conn=cid, j=int(onp.argmax(onp.diff(trecv) < -1e-9)))
            if (onp.diff(si) < 0).any():
                bad("seq_in_reordered", conn=cid, j=int(onp.argmax(onp.diff(si) < 0)))
            if (si >= K).any() or (si < 0).any():
                bad("consumed_by_unrecorded_step", conn=cid)
                continue
            sender_te = onp.array(R[m].steps.ts_end, float)
            # every message sent before the last consumed one is present: seq_out contiguous from 0 (checked) and
            # ts_sent equals the sender's ts_end for that tick
            for j in range(M):
                if so[j] < len(sender_te) and abs(sender_te[so[j]] - tsent[j]) > 1e-9:
                    bad("ts_sent_not_sender_ts_end", conn=cid, j=j, ts_sent=float(tsent[j]), sender_ts_end=float(sender_te[so[j]]))
                    break
            # causality (universal): never consumed by a step that started before arrival
            early = ts[si] < trecv - 1e-9
            if early.any():
                j = int(onp.argmax(early))
                bad("consumed_before_arrival", conn=cid, j=j, ts_start=float(ts[si[j]]), ts_recv=float(trecv[j]), seq_in=int(si[j]))
            # policy
            rate_out = nodes[m].rate
            if not wall_clock:
                if c.blocking:
                    ph_in, ph_node = F6(nodes[m].phase), F6(node.phase)
                    for j in range(M):
                        ti = Fraction(j) / Fraction(rate_out).limit_denominator(10**6) + ph_in
                        x = (ti - ph_node) * Fraction(node.rate).limit_denominator(10**6)  # consumed by step N >= x (N > x if skip)
                        N = (math.floor(x) + 1) if c.skip else math.ceil(x)
                        N = max(N, 0)
                        if x.denominator == 1:
                            stats["ties"] = stats.get("ties", 0) + 1
                        if N != si[j]:
                            near = abs(float(x) - round(float(x))) / node.rate < 2e-6
                            if near and abs(N - si[j]) == 1:
                                stats["ambiguous"] = stats.get("ambiguous", 0) + 1
                            else:
                                bad("blocking_step", conn=cid, j=j, seq_in=int(si[j]), expected=int(N), x=float(x), skip=c.skip)
                                break
                else:
                    buf = c.jitter.name == "BUFFER"
                    cphase = float(c.phase)
                    for j in range(M):
                        a = trecv[j]
                        ok = (ts > a) if c.skip else (ts >= a)
                        if buf:
                            ok = ok & (ts >= j / rate_out + cphase)
                        cand = onp.argwhere(ok)
                        exp = int(cand[0, 0]) if len(cand) else None
                        if (ts == a).any():
                            stats["ties"] = stats.get("ties", 0) + 1
                        if exp != si[j]:
                            bad("nonblocking_step", policy=("buffer" if buf else "latest") + ("+skip" if c.skip else ""), conn=cid, j=j,
                                seq_in=int(si[j]), expected=exp, ts_recv=float(a), around=ts[max(0, si[j] - 1): si[j] + 2].tolist())
                            break
                        if buf and exp is not None and (ts >= a).any() and int(onp.argmax(ts >= a)) != exp:
                            stats["buffered_holds"] = stats.get("buffered_holds", 0) + 1
            # 1:1 consumption statistics (non-triviality)
            cnt = onp.bincount(si, minlength=K)
            if (cnt != 1).any():
                stats["not_1to1_conns"] = stats.get("not_1to1_conns", 0) + 1
            # windows
            if s.inputs is not None and check_windows:
                iw = s.inputs[key]
                wseq = onp.array(iw.seq)
                W = c.window
                for k in range(K):
                    got = [int(x) for x in so[si <= k]]
                    exp = ([-1] * W + got)[-W:]
                    obs = [int(x) if x >= 0 else -1 for x in wseq[k]]
                    stats["windows_checked"] = stats.get("windows_checked", 0) + 1
                    if obs != exp:
                        bad("window", conn=cid, k=k, observed=obs, expected=exp)
                        break
                    tag = [int(x) for x in onp.array(iw.data.seq[k])]
                    src = [int(x) for x in onp.array(iw.data.src[k])]
                    if tag != exp or any(x != nodes[m].idx for x in src):
                        bad("window_payload", conn=cid, k=k, tag=tag, src=src, expected=exp)
                        break
                    # the non-scalar payload leaf of every slot belongs to that slot's message (vec is a function of h)
                    vecs = onp.asarray(iw.data.vec[k]).astype(onp.int64).tolist()
                    hs = [int(x) for x in onp.asarray(iw.data.h[k])]
                    want = [W_vec_of(hh) if sq >= 0 else [0, 0, 0] for hh, sq in zip(hs, exp)]
                    if vecs != want:
                        bad("window_vector_payload_not_its_messages", conn=cid, k=k, got=vecs, expected=want, seqs=exp)
                        break
                    # times of window entries equal the message record's
                    for wi, sq in enumerate(exp):
                        if sq >= 0:
                            if abs(float(iw.ts_recv[k][wi]) - onp.float32(trecv[sq])) > 1e-6 or abs(float(iw.ts_sent[k][wi]) - onp.float32(tsent[sq])) > 1e-6:
                                bad("window_times", conn=cid, k=k, slot=wi)
                                break
                    if own_nonce is not None:
                        nn = [int(x) for x, sq in zip(onp.array(iw.data.nonce[k]), exp) if sq >= 0]
                        if any(x != own_nonce for x in nn):
                            bad("foreign_episode_message", conn=cid, k=k, nonces=nn, own=own_nonce)
                            break
    return V


# ---------------------------------------------------------------- workload
def plan(tier, seed):
    n = 40 if tier == "quick" else 800
    cases = []
    for i in range(n):
        cases.append(dict(name=f"sim-{i}", kind="sim", spec_seed=seed * 100003 + i, steps=14 if tier == "quick" else 25, timeout=240))
    for i in range(24 if tier == "quick" else 200):
        cases.append(dict(name=f"tie-{i}", kind="tie", spec_seed=seed * 100003 + 70000 + i, steps=14, timeout=240))
    if tier == "thorough":
        for i in range(60):
            cases.append(dict(name=f"wall-{i}", kind="wall", spec_seed=seed * 100003 + 50000 + i, timeout=240))
    return cases


def gen_spec(case):
    import random

    from rexmon import specs as S

    rnd = random.Random(case["spec_seed"])
    if case["kind"] == "wall":
        spec = S.rand_live(case["spec_seed"], overrun=False, n_max=4)
        for n in spec["nodes"]:
            n["rate"] = max(n["rate"], 13)
        return spec
    if case["kind"] == "tie":  # zero delays + commensurate rates + many buffered / skipped non-blocking connections: exact arrival/start ties
        # odd cases: buffered connections only on forward edges (skipped or not), so that a wrong tie rule shows in the record
        # instead of turning a cycle into a deadlock (which this check can only call inconclusive)
        if case["spec_seed"] % 2:
            return S.rand_spec(case["spec_seed"], zero_bias=1.0, p_buffer=0.8, p_fwd_skip=0.7, p_edge=0.8, allow_blocking=rnd.random() < 0.2, n_min=3, n_max=4,
                               buffer_back=False)
        return S.rand_spec(case["spec_seed"], zero_bias=1.0, p_buffer=0.6, p_fwd_skip=0.4, allow_blocking=rnd.random() < 0.3, n_max=4)
    zb = 0.25 if rnd.random() < 0.5 else 0.0
    return S.rand_spec(case["spec_seed"], zero_bias=zb)


def run_case(case, checker=None, pid="C03", nontrivial=None, spec_fn=None, between_episodes=None):
    from rexmon import drive_async as D
    from rexmon import specs as S

    spec = (spec_fn or gen_spec)(case)
    dg = S.digest(spec)
    items, counters, samples = [], {}, []
    wall = case["kind"] == "wall"
    try:
        g, nodes, sup, gs0 = D.build_graph(spec, clock="wall" if wall else "sim", rtf=0, max_records=300)
    except (ValueError, NotImplementedError) as e:
        return dict(items=[dict(status="rejected", key=dg, nontrivial=False, note=f"{type(e).__name__}: {e}"[:200])], counters={"rejected_build": 1})
    m = D.Monitor(seed=case["spec_seed"], p_sleep=0.1 if not wall else 0.0, max_sleep=0.002).install()
    for ep in range(2):
        stats = {}
        if ep == 1 and between_episodes is not None:
            between_episodes(nodes)
        try:
            if wall:
                def _ep():
                    import time

                    t0 = time.time()
                    gs = D.with_nonce(gs0, nodes, 700 + ep)
                    while time.time() - t0 < 0.4:
                        gs = g.run(gs)
                    g.stop()
                    return dict(record=D.npz(g.get_record()))
                r = D.call_with_deadline(_ep, 60)
            else:
                r = D.call_with_deadline(D.run_episode, 60, g, nodes, sup, gs0, "run" if ep == 0 else "step", case.get("steps", 14) + 5 * ep, 700 + ep)
        except D.Stall as e:
            items.append(dict(status="inconclusive", key=f"{dg}/{ep}", nontrivial=False, note=f"stall outside G_live={not S.in_live(spec)}: {e}"))
            counters["stalls"] = counters.get("stalls", 0) + 1
            break
        except (ValueError, NotImplementedError) as e:  # explicit refusal of the configuration by AsyncGraph.start (e.g. advance without blocking inputs)
            items.append(dict(status="rejected", key=f"{dg}/{ep}", nontrivial=False, note=f"refused: {type(e).__name__}: {e}"[:200]))
            counters["refused_by_start"] = counters.get("refused_by_start", 0) + 1
            break
        except TypeError as e:  # get_record() on a node with zero steps / connection with zero messages (DESIGN 5.3)
            items.append(dict(status="rejected", key=f"{dg}/{ep}", nontrivial=False, note=f"empty record: {e}"[:160]))
            continue
        V = (checker or check_record)(r["record"], nodes, stats, wall_clock=wall, own_nonce=700 + ep)
        if m.errors:
            V.append(dict(clause="worker_exception", errors=m.errors[:2]))
        nontriv = nontrivial(stats) if nontrivial else (stats.get("msgs", 0) >= 50 and stats.get("not_1to1_conns", 0) >= 1)
        stats = {k: v for k, v in stats.items() if isinstance(v, (int, float))}
        for k, v in stats.items():
            counters[k] = counters.get(k, 0) + v
        if V:
            items.append(dict(status="violated", key=f"{dg}/{ep}", nontrivial=nontriv,
                              witness=dict(mechanism=V[0]["clause"], violations=V[:4], spec=spec, episode=ep, features=S.features(spec))))
        else:
            items.append(dict(status="held", key=f"{dg}/{ep}", nontrivial=nontriv))
        if ep == 0:
            samples.append(dict(spec_digest=dg, features=S.features(spec), nodes=len(spec["nodes"]), conns=len(spec["conns"]), clock=case["kind"],
                                msgs=stats.get("msgs", 0), steps=stats.get("steps", 0), ties=stats.get("ties", 0)))
    counters["fingerprints"] = 1
    return dict(items=items, counters=counters, samples=samples)
