"""C05 — lifecycle calls return (bounded progress + quiescent-deadlock detection) and episodes are isolated."""
import random
import threading
import time
from collections import Counter

import numpy as onp

RULE = ("G_live witness graphs (+ the repository's own test topology) under both clocks and real-time factors {0,5,20}; protocol-valid "
        "histories of 3-6 episodes drawn from the grammar (run^n | reset step^n [mid-episode reset]) ended by stop / immediate stop / "
        "double stop / next reset, with seeded pauses at task boundaries and two deterministic gates (supervisor held at sync.enter "
        "resp. sync.before_wait while stop() runs to stop.after_cancel); a call 'does not return' only if the process is quiescent "
        "(hook counter frozen, all workers parked, user thread inside a rex lifecycle call); every finished episode's record is "
        "checked for isolation (own nonce only, seq/time from 0, C03/C04 clauses); one evaluation = one episode; non-trivial = "
        "episode whose forced gate was reached or that ended with an immediate stop/next reset; distinct by spec digest x episode "
        "x ending")
RULE += " Built later (thorough): 48 cases with seeded pauses at statement starts inside rex/asynchronous.py in every thread (sys.monitoring LINE events)."
RULE += " Built later: statement-level gate (sys.monitoring LINE events, located by source text): the supervisor worker is held before it pops its answered action future while stop() runs up to the statement that indexes that queue."
RULE += " Built later: tie family (zero delays, commensurate rates, buffered/skipped connections)."
RULE += " Built later: G_wide family (overruns and blocking+skip allowed, no blocking fast->slow edge; supported since repairs 4f3d528/f3bcd76)."
RULE += " Built later: blocking-cycle family (slow->fast blocking edge, blocking skipped back-edge, rate multiple <= 4, one starved connection worker)."
RULE += " Built later: ring family (a bursty fast node between the supervisor and a slow node) that makes a lost wake-up in a connection's selection queue a deadlock."
RULE += " Built later: episodes start from the initial or from the previous episode's final graph state (carried over; only the seq/time-from-0 clauses apply then); one node with a 1 s start-up routine on the wall clock (episode time must not include it)."
MIN_NONTRIVIAL = {"quick": 20, "thorough": 300}
DECIDING = ["lifecycle_calls", "gates_reached", "episodes_checked"]
ASSUMPTIONS = ["'always return' is restated as: no quiescent deadlock on protocol-valid histories over G_live + corpus (DESIGN.md 4/C05); "
               "a watchdog firing while threads still make progress is inconclusive",
               "gates hold a worker thread inside a guarded hook point only; they time out (inconclusive) rather than hang"]
LEVEL = "exploration"
WORKERS = 12


def gen_history(rnd, n_eps):
    H = []
    for e in range(n_eps):
        style = rnd.choice(["run", "run", "step"])
        n = rnd.randint(1, 10)
        if style == "run":
            end = rnd.choice(["stop", "stop_now", "stop_now", "stop2", "gate_enter", "gate_enter", "gate_before_wait"])
        else:
            end = rnd.choice(["stop", "stop_now", "stop_now", "stop2", "next_reset"])
        H.append(dict(style=style, n=n, end=end, mid_reset=(style == "step" and rnd.random() < 0.25), pre_stop=(e == 0 and rnd.random() < 0.2),
                      carry=(e > 0 and rnd.random() < 0.4)))  # carry: start from the PREVIOUS episode's final graph state instead of the initial one
    return H


def queue_diagnosis(g):
    """Read-only look at the event queues of a quiescent graph (all workers parked): which connection has a selection whose
    messages are all there but that nobody will process (lost wake-up), and how many scheduling tokens each node has left
    (0 everywhere = the documented num_tokens limit). Diagnostic only; the verdict is the call that never returns."""
    out = dict(ready_selection_not_processed=[], ready_ts_max_not_processed=[], tokens={})
    try:
        for n, w in g._async_nodes.items():
            out["tokens"][n] = len(w.q_tick) if w.q_tick is not None else None
            for iname, i in w.inputs.items():
                if i.q_expected_select and len(i.q_msgs) >= i.q_expected_select[0][1]:
                    out["ready_selection_not_processed"].append(f"{iname}->{n}")
                if i.q_expected_ts_max and i.q_expected_ts_max[0] <= len(i.q_ts_input):
                    out["ready_ts_max_not_processed"].append(f"{iname}->{n}")
    except Exception as e:  # noqa
        out["error"] = repr(e)[:100]
    return out


def run_case(case):
    from rexmon import drive_async as D
    from rexmon import specs as S
    from rexmon.monitors import c03, c04

    rnd = random.Random(case["spec_seed"])
    if case.get("corpus") is not None:
        spec = S.corpus()[case["corpus"]]
    elif case.get("kind") == "iso":
        # isolation cases outside G_live: non-blocking graphs WITH computation overruns (drift, queued messages at stop)
        spec = S.rand_spec(case["spec_seed"], allow_blocking=False, allow_advance=False, overrun=True, n_max=4)
    elif case.get("kind") == "tie":
        # zero delays and commensurate rates (exact arrival/start ties) with buffered and skipped connections, inside G_wide; no
        # advancing nodes: advance + zero delays + a skipped loop is a zero-time algebraic loop (tick k+1 fires at the same
        # instant as the message of tick k that the supervisor step at that instant must also wait for), DESIGN 12-n
        spec = S.rand_wide(case["spec_seed"], zero_bias=1.0, p_buffer=0.6, p_fwd_skip=0.4, n_max=4, live_ok=True, allow_advance=False)
    elif case.get("kind") == "fan":
        spec = S.rand_fan(case["spec_seed"])  # fast receiver, several slow non-blocking senders that listen to it
    elif case.get("kind") == "wide":
        spec = S.rand_wide(case["spec_seed"], n_max=4)  # G_wide minus G_live: overruns and blocking+skip, no blocking fast->slow edge
    elif case.get("kind") == "blk":
        spec = S.rand_blk(case["spec_seed"])  # cycles of blocking connections with a slow->fast member (zero-timestamp ts_max entries)
    elif case.get("kind") == "cyc":
        spec = S.rand_cyc(case["spec_seed"])  # rings with a bursty fast member (zero-message selections queued behind incomplete ones)
    else:
        spec = S.rand_live(case["spec_seed"], n_max=4)
    dg = S.digest(spec)
    wall = case.get("clock") == "wall"
    rtf = 0 if wall else rnd.choice([0, 0, 0, 5, 20])
    if wall:
        for n in spec["nodes"]:
            n["rate"] = max(n["rate"], 13)
    g, nodes, sup, gs0 = D.build_graph(spec, clock="wall" if wall else "sim", rtf=rtf, max_records=300, init_seed=case["spec_seed"])
    slow_start = 0.0
    if wall and rnd.random() < 0.7:
        slow_start = 1.0
        rnd.choice(list(nodes.values())).startup_sleep = slow_start  # episode time must start AFTER the start-up routines
    slow = None
    if case.get("kind") in ("blk", "cyc", "fan") and rnd.random() < 0.75:
        # one starved connection worker (10x slower): timestamps reach a queue after the expectations that wait for them
        slow = "n1/n0" if case.get("kind") == "blk" else rnd.choice([f"{c['inp']}/{c['out']}" for c in spec["conns"]])
    mon = D.Monitor(seed=case["spec_seed"], p_sleep=(0.1 if slow else 0.15) if not wall else 0.0, max_sleep=0.004 if slow else 0.003, slow_owner=slow).install()
    H = gen_history(rnd, rnd.randint(3, 6))
    iso = case.get("kind") == "iso"
    if iso:
        H = [dict(style=rnd.choice(["run", "step"]), n=rnd.randint(6, 14), end=rnd.choice(["stop", "stop_now"]), mid_reset=False, pre_stop=False) for _ in range(3)]
    if case.get("kind") == "blk":  # longer episodes: the backlog of unprocessed queue entries needs a few periods to build up
        H = [dict(style=rnd.choice(["run", "step"]), n=rnd.randint(10, 16), end=rnd.choice(["stop", "stop_now", "stop2"]), mid_reset=False, pre_stop=False,
                  carry=(e > 0 and rnd.random() < 0.3)) for e in range(3)]
    lg = None
    if case.get("kind") == "stoprace":
        # stop() directly after run(): the supervisor worker is held between receiving its action and popping the action future,
        # the user thread runs stop() up to the statement that cancels the newest action future and is held there until the
        # future has been popped (the queue it is about to index is then empty)
        H = [dict(style="run", n=rnd.randint(2, 6), end="stoprace", mid_reset=False, pre_stop=False, carry=False) for e in range(rnd.randint(2, 4))]
        def newest():
            q = g._synchronizer.action
            try:
                return q[-1]
            except IndexError:
                return None

        # released once the future that was newest when the user arrived has been popped (the queue is empty, or holds a newer one)
        lg = D.LineGate("_async_step", "self._q_act.popleft()", "stop", "self._synchronizer.action[-1]", snapshot=newest,
                        until=lambda snap: newest() is not snap or snap is None).__enter__()
    state = dict(op=None, ep=-1, done=False, err=None, calls=0, results=[], gates=0, gate_misses=0)

    def call(name, fn, *a):
        state["op"] = name
        r = fn(*a)
        state["calls"] += 1
        state["op"] = None
        return r

    last_gs = [None]

    def user():
        try:
            pending = None  # episode whose record can only be collected after the next stop
            for e, h in enumerate(H):
                state["ep"] = e
                nonce = 500 + e
                start_gs = last_gs[0] if (h.get("carry") and last_gs[0] is not None) else gs0
                gs = D.with_nonce(start_gs, nodes, nonce)
                info = dict(ep=e, h=h, nonce=nonce, gate_reached=None, record=None, obs0=None, first_run_seq=None)
                if h["pre_stop"]:
                    call("stop(before any episode)", g.stop)
                if h["style"] == "run":
                    for i in range(h["n"]):
                        if lg is not None and i == h["n"] - 1:
                            lg.arm()
                        gs = call("run", g.run, gs)
                        if i == 0:
                            info["first_run_seq"] = int(onp.array(gs.step_state[sup.name].seq))
                    last_gs[0] = gs
                else:
                    gs, ss = call("reset", g.reset, gs)
                    info["obs0"] = (int(onp.array(ss.seq)), float(onp.array(ss.ts)))
                    for i in range(h["n"]):
                        gs, ss = call("step", g.step, gs)
                    if h["mid_reset"]:
                        nonce = 600 + e
                        info["nonce"] = nonce
                        gs = D.with_nonce(gs0, nodes, nonce)
                        gs, ss = call("reset(mid-episode)", g.reset, gs)
                        info["obs0"] = (int(onp.array(ss.seq)), float(onp.array(ss.ts)))
                        for i in range(rnd.randint(1, 4)):
                            gs, ss = call("step", g.step, gs)
                end = h["end"]
                if end == "next_reset" and e + 1 < len(H) and H[e + 1]["style"] == "step":
                    state["results"].append(info)  # no record: the next reset() stops this episode implicitly
                    continue
                if end in ("gate_enter", "gate_before_wait"):
                    point = "sync.enter" if end == "gate_enter" else "sync.before_wait"
                    gate = mon.arm(point, timeout=15.0)
                    reached = gate["reached"].wait(3.0)
                    info["gate_reached"] = bool(reached)
                    if reached:
                        state["gates"] += 1
                        mon.on_point["stop.after_cancel"] = gate["release"].set
                    else:
                        state["gate_misses"] += 1
                        mon.disarm(point)
                    call(f"stop({end})", g.stop)
                    mon.on_point.pop("stop.after_cancel", None)
                    mon.disarm(point)
                    if gate.get("timed_out"):
                        info["gate_timed_out"] = True
                elif end == "stop":
                    time.sleep(rnd.uniform(0.0, 0.03))
                    call("stop", g.stop)
                elif end == "stop2":
                    call("stop", g.stop)
                    call("stop(second)", g.stop)
                else:  # stop_now / fallback
                    call("stop(immediately)", g.stop)
                try:
                    info["record"] = D.npz(g.get_record())
                except TypeError as ex:
                    info["record_error"] = str(ex)[:100]
                state["results"].append(info)
            state["done"] = True
        except BaseException as ex:  # noqa
            import traceback

            state["err"] = "".join(traceback.format_exception(type(ex), ex, ex.__traceback__))[-1200:]
            state["done"] = True

    ly = None
    if case.get("line_yield"):  # thorough tier: seeded pauses at statement starts inside rex/asynchronous.py, in every thread
        ly = D.LineYield(seed=case["spec_seed"], p=case["line_yield"], max_sleep=case.get("line_sleep", 0.0)).__enter__()
    th = threading.Thread(target=user, daemon=True, name="rexmon-user")
    th.start()
    q = D.Quiescence(mon, th.ident, interval=1.0)
    deadlock = None
    t0 = time.time()
    hits = 0
    budget = case.get("timeout", 300) - 40
    while th.is_alive() and time.time() - t0 < budget:
        th.join(0.5)
        if not th.is_alive():
            break
        if state["op"] is None:
            hits = 0
            continue
        r = q.check()
        if r is not None:
            hits += 1
            if hits >= 2:
                deadlock = dict(op=state["op"], episode=state["ep"], blocked=r["blocked"], hook_events=r["count"], points=[p[1:] for p in mon.log[-12:]],
                                queues=queue_diagnosis(g))
                break
        else:
            hits = 0

    items, counters, samples = [], Counter(), []
    if lg is not None:
        counters["line_gate_supervisor_held"], counters["line_gate_user_held"] = lg.held_a, lg.held_b
        state["gates"] += lg.held_b
        if deadlock is None and not th.is_alive():
            lg.__exit__()
    if ly is not None:
        counters["line_events"], counters["line_yields"] = ly.lines, ly.yields
        if deadlock is None and not th.is_alive():
            ly.__exit__()
    counters["lifecycle_calls"] = state["calls"]
    counters["gates_reached"] = state["gates"]
    counters["gate_misses"] = state["gate_misses"]
    counters["hook_events"] = mon.count
    base_w = dict(spec=spec, history=H, clock="wall" if wall else "sim", rtf=rtf)
    if deadlock is not None:
        e = state["ep"]
        mech = "stop_never_returns" if deadlock["op"].startswith("stop") else "call_never_returns"
        # (the isolation-only family is non-blocking, hence inside G_wide: since repairs 5.1-m/n a stall there is a violation too)
        items.append(dict(status="violated", key=f"{dg}/{e}/{H[e]['end']}", nontrivial=True,
                          witness=dict(mechanism=mech, deadlock=deadlock, **base_w)))
    elif th.is_alive():
        items.append(dict(status="inconclusive", key=f"{dg}/watchdog", nontrivial=False, note=f"watchdog: op={state['op']} still making progress"))
    elif state["err"]:
        items.append(dict(status="violated", key=f"{dg}/{state['ep']}/exception", nontrivial=True,
                          witness=dict(mechanism="lifecycle_call_raised", error=state["err"], episode=state["ep"], **base_w)))
    if mon.errors:
        items.append(dict(status="violated", key=f"{dg}/worker-exception", nontrivial=True,
                          witness=dict(mechanism="worker_exception", errors=mon.errors[:3], **base_w)))
    # ---- isolation oracle on every finished episode
    prev_eps = None
    for info in state["results"]:
        e, h = info["ep"], info["h"]
        nontriv = bool(info.get("gate_reached")) or h["end"] in ("stop_now", "next_reset", "stop2", "stoprace")
        key = f"{dg}/{e}/{h['style']}/{h['end']}"
        V = []
        if info.get("gate_timed_out"):
            items.append(dict(status="inconclusive", key=key, nontrivial=False, note="gate timed out"))
            continue
        if info["obs0"] is not None and info["obs0"][0] != 0:
            V.append(dict(clause="first_observation_not_seq0", obs0=info["obs0"], carried_over_start=bool(h.get("carry"))))
        if info.get("first_run_seq") is not None and info["first_run_seq"] != 1:
            V.append(dict(clause="episode_does_not_start_from_seq0", supervisor_seq_after_first_run=info["first_run_seq"], carried_over_start=bool(h.get("carry"))))
        rec = info["record"]
        if rec is not None:
            counters["episodes_checked"] += 1
            stats = {}
            # an episode started from a carried-over graph state legitimately begins with the user's state and input windows:
            # only the "starts from sequence number 0 and time 0" clauses apply to it, not the window/nonce/state clauses
            carried = bool(h.get("carry"))
            V += c03.check_record(rec, nodes, stats, wall_clock=wall, own_nonce=None if carried else info["nonce"], check_windows=not carried)
            if not wall:
                V += c04.check_record(rec, nodes, {}, wall_clock=False)
            counters["msgs"] += stats.get("msgs", 0)
            if wall and slow_start:
                # wall clock: the first step's measured end (and the first arrivals) must not include the start-up routine (1.0 s)
                for name, nr in rec.nodes.items():
                    if len(nr.steps.ts_end) and float(nr.steps.ts_end[0]) - float(nr.steps.ts_start[0]) > 0.6 and float(nr.steps.ts_start[0]) < 0.3:
                        V.append(dict(clause="episode_time_includes_startup", node=name, ts_start0=float(nr.steps.ts_start[0]), ts_end0=float(nr.steps.ts_end[0]), startup_s=slow_start))
                        break
                counters["startup_time_checked"] += 1
            eps_vals = set()
            for name, nr in rec.nodes.items():
                eps_vals |= set(int(x) for x in onp.array(nr.steps.eps).ravel())
                st = nr.steps
                if not carried and nr.steps.state is not None and len(st.seq) and int(onp.array(st.state.cnt)[0]) != 0:
                    V.append(dict(clause="state_carried_over", node=name, cnt0=int(onp.array(st.state.cnt)[0])))
                for m, ir in nr.inputs.items():
                    so = onp.array(ir.messages.seq_out)
                    if len(so) and so[0] != 0:
                        V.append(dict(clause="connection_not_from_seq0", conn=f"{m}->{name}", first=int(so[0])))
            if len(eps_vals) != 1:
                V.append(dict(clause="episode_counter_not_constant", eps=sorted(eps_vals)))
            elif prev_eps is not None and min(eps_vals) <= prev_eps:
                V.append(dict(clause="episode_counter_not_increasing", eps=sorted(eps_vals), prev=prev_eps))
            if len(eps_vals) == 1:
                prev_eps = min(eps_vals)
        elif "record_error" in info:
            counters["empty_records"] += 1
        if V:
            items.append(dict(status="violated", key=key, nontrivial=nontriv, witness=dict(mechanism=V[0]["clause"], violations=V[:4], episode=e, **base_w)))
        else:
            items.append(dict(status="held", key=key, nontrivial=nontriv))
    samples.append(dict(spec_digest=dg, clock="wall" if wall else "sim", rtf=rtf, history=[(h["style"], h["n"], h["end"], h["mid_reset"]) for h in H],
                        gates_reached=state["gates"], calls=state["calls"], features=S.features(spec)))
    return dict(items=items, counters=dict(counters), samples=samples)


def plan(tier, seed):
    n, nw = (36, 6) if tier == "quick" else (560, 60)
    cases = [dict(name=f"sim-{i}", spec_seed=seed * 100057 + i, clock="sim", timeout=300) for i in range(n)]
    cases += [dict(name=f"wall-{i}", spec_seed=seed * 100057 + 5000 + i, clock="wall", timeout=300) for i in range(nw)]
    cases += [dict(name=f"iso-{i}", kind="iso", spec_seed=seed * 100057 + 7000 + i, clock="sim", timeout=300) for i in range(12 if tier == "quick" else 150)]
    cases += [dict(name=f"cyc-{i}", kind="cyc", spec_seed=seed * 100057 + 11000 + i, clock="sim", timeout=300) for i in range(10 if tier == "quick" else 120)]
    cases += [dict(name=f"wide-{i}", kind="wide", spec_seed=seed * 100057 + 15000 + i, clock="sim", timeout=300) for i in range(12 if tier == "quick" else 200)]
    cases += [dict(name=f"stoprace-{i}", kind="stoprace", spec_seed=seed * 100057 + 23000 + i, clock="sim", timeout=300) for i in range(8 if tier == "quick" else 80)]
    cases += [dict(name=f"tie-{i}", kind="tie", spec_seed=seed * 100057 + 19000 + i, clock="sim", timeout=300) for i in range(8 if tier == "quick" else 100)]
    cases += [dict(name=f"fan-{i}", kind="fan", spec_seed=seed * 100057 + 17000 + i, clock="sim", timeout=300) for i in range(6 if tier == "quick" else 60)]
    cases += [dict(name=f"blk-{i}", kind="blk", spec_seed=seed * 100057 + 13000 + i, clock="sim", timeout=300) for i in range(16 if tier == "quick" else 160)]
    cases += [dict(name=f"corpus-{i}", spec_seed=seed * 100057 + 9000 + i, corpus=i % 3, clock="sim", timeout=300) for i in range(3 if tier == "quick" else 12)]
    if tier == "thorough":  # statement-level pauses inside rex/asynchronous.py (sys.monitoring LINE events), all families
        for i in range(48):
            k = [None, "blk", "cyc", "wide"][i % 4]
            c = dict(name=f"ly-{i}", spec_seed=seed * 100057 + 21000 + i, clock="sim", timeout=600, line_yield=0.03, line_sleep=0.0005)
            if k:
                c["kind"] = k
            cases.append(c)
    return cases
