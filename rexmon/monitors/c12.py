"""C12 — generated and augmented graphs are well-formed and match the node configuration (offline checker)."""
import random
from collections import Counter

import numpy as onp

RULE = ("generate_graphs on random node sets (2-5 nodes, static / mixture / trainable delays, computation overruns, zero delays with "
        "commensurate rates so that arrivals tie exactly with step starts, skip/window settings, 1-4 episodes, horizons 0.5-3 s); every "
        "episode is checked against the rules recomputed in numpy (valid prefix, phase, spacing, no overlap, horizon, delays >= 0 and exact "
        "for deterministic ones, FIFO-arrival consumption rule with the skip tie rule, masking, acyclicity); augment_graphs on graphs with a "
        "node/its edges removed and on AsyncGraph recordings extended by a new node: existing arrays bit-identical, exactly the missing keys "
        "added, new parts obey the rules; one evaluation = one episode (or one augmentation); non-trivial = episode with >=1 connection not "
        "consumed 1:1 or >=1 exact tie or >=1 overrun; distinct by spec digest x episode")
RULE += ' Built later: un-batched augmentation equals the batched one; a new node that also sends to a recorded (padded) receiver; nodes with only one or two steps inside the horizon.'
MIN_NONTRIVIAL = {"quick": 20, "thorough": 300}
DECIDING = ["vertices_checked", "edges_checked"]
ASSUMPTIONS = ["consumption follows the FIFO arrival a_j = max_{i<=j} ts_recv_i (the documented monotone seq_in contract); overtaken messages are counted",
               "float32 graph arrays: comparisons between ts_start and ts_recv are exact (the very floats the generator compared); derived sums use 1e-5"]
LEVEL = "exploration"
WORKERS = 12


def check_graph(cg, nodes, ts_max, stats, only_nodes=None, only_edges=None, exact_delays=True):
    """cg: numpy Graph with episode dimension. Returns per-episode violation lists."""
    import distrax

    from rex.base import TrainableDist

    E = next(iter(cg.vertices.values())).seq.shape[0]
    out = []
    for e in range(E):
        V = []

        def bad(clause, **kw):
            V.append(dict(clause=clause, episode=e, **kw))

        flags = Counter()
        for n, v in cg.vertices.items():
            if only_nodes is not None and n not in only_nodes:
                continue
            seq, ts, te = onp.asarray(v.seq[e]), onp.asarray(v.ts_start[e]), onp.asarray(v.ts_end[e])
            K = int((seq >= 0).sum())
            stats["vertices_checked"] += K
            if not onp.array_equal(seq[:K], onp.arange(K)) or (seq[K:] != -1).any():
                bad("valid_vertices_not_a_prefix", node=n, seq=seq[:12].tolist())
                continue
            if K == 0:
                continue
            node = nodes[n]
            if abs(float(ts[0]) - float(onp.float32(node.phase))) > 1e-6:
                bad("first_vertex_not_at_phase", node=n, ts_start0=float(ts[0]), phase=float(node.phase))
            gaps = onp.diff(ts[:K])
            if (gaps < 1.0 / node.rate - 1e-5).any():
                k = int(onp.argmax(gaps < 1.0 / node.rate - 1e-5))
                bad("vertices_closer_than_one_period", node=n, k=k, gap=float(gaps[k]), period=1.0 / node.rate)
            if (ts[1:K] < te[: K - 1] - 1e-6).any():
                k = int(onp.argmax(ts[1:K] < te[: K - 1] - 1e-6))
                bad("vertices_overlap", node=n, k=k, ts_end=float(te[k]), ts_start_next=float(ts[k + 1]))
            if (te[:K] < ts[:K]).any():
                bad("negative_computation_delay", node=n)
            if (te[:K] > ts_max[e] + 1e-5).any():
                bad("vertex_ends_after_horizon", node=n, ts_end=float(te[:K].max()), ts_max=float(ts_max[e]))
            if (gaps > 1.0 / node.rate + 1e-5).any():
                flags["overrun"] += 1
            d = node.delay_dist.dist if hasattr(node.delay_dist, "dist") else None
            if exact_delays and isinstance(d, distrax.Deterministic):
                if (onp.abs((te[:K] - ts[:K]) - float(d.loc)) > 2e-6).any():
                    bad("deterministic_computation_delay_not_used", node=n, expected=float(d.loc), got=float((te[:K] - ts[:K])[0]))
        for (n1, n2), ed in cg.edges.items():
            if only_edges is not None and (n1, n2) not in only_edges:
                continue
            c = nodes[n1].outputs[n2]
            so, si, tr = onp.asarray(ed.seq_out[e]), onp.asarray(ed.seq_in[e]), onp.asarray(ed.ts_recv[e])
            v1, v2 = cg.vertices[n1], cg.vertices[n2]
            K1 = int((onp.asarray(v1.seq[e]) >= 0).sum())
            K2 = int((onp.asarray(v2.seq[e]) >= 0).sum())
            ts2 = onp.asarray(v2.ts_start[e])[:K2]
            te1 = onp.asarray(v1.ts_end[e])
            sent = [j for j in range(len(so)) if so[j] >= 0]
            stats["edges_checked"] += len(sent)
            if [int(so[j]) for j in sent] != list(range(len(sent))):
                bad("sent_messages_not_contiguous", conn=(n1, n2), seq_out=so[:12].tolist())
                continue
            # every valid sender vertex that ended inside the horizon sent a message
            if len(sent) != K1:
                bad("message_count_not_sender_vertex_count", conn=(n1, n2), messages=len(sent), sender_vertices=K1)
            dd = c.delay_dist
            det = None
            if isinstance(dd, TrainableDist):
                det = float(dd.min)
            elif isinstance(getattr(dd, "dist", None), distrax.Deterministic):
                det = float(dd.dist.loc)
            a = -onp.inf
            cnt = Counter()
            for j in range(len(so)):
                if so[j] < 0:
                    if si[j] >= 0:
                        bad("unsent_message_consumed", conn=(n1, n2), j=j)
                    continue
                if tr[j] < te1[so[j]] - 1e-6:
                    bad("received_before_sent", conn=(n1, n2), j=j, ts_recv=float(tr[j]), ts_sent=float(te1[so[j]]))
                if exact_delays and det is not None and abs((tr[j] - te1[so[j]]) - det) > 3e-6:
                    bad("communication_delay_not_configured_one", conn=(n1, n2), j=j, got=float(tr[j] - te1[so[j]]), expected=det)
                if tr[j] < a:
                    stats["overtaken_messages"] += 1
                a = max(a, tr[j])
                idx = onp.argwhere(ts2 > a if c.skip else ts2 >= a)
                exp = int(idx[0, 0]) if len(idx) else -1
                if (ts2 == a).any():
                    flags["tie"] += 1
                    stats["exact_ties"] += 1
                if exp != si[j]:
                    bad("message_not_assigned_to_first_step_after_arrival", conn=(n1, n2), skip=bool(c.skip), j=j, seq_in=int(si[j]), expected=exp, arrival=float(a),
                        ts_start_around=ts2[max(0, exp - 1): exp + 2].tolist() if exp >= 0 else ts2[-2:].tolist())
                    break
                if exp >= 0:
                    cnt[exp] += 1
            if K2 and any(cnt.get(k, 0) != 1 for k in range(K2)):
                flags["not_1to1"] += 1
        out.append((V, flags))
    return out


def acyclic_violations(cg, nodes):
    import jax
    import networkx as nx

    from rex.utils import to_networkx_graph

    E = next(iter(cg.vertices.values())).seq.shape[0]
    res = []
    for e in range(E):
        try:
            G = to_networkx_graph(jax.tree_util.tree_map(lambda x: x[e], cg), nodes, validate=True)
        except AssertionError as ex:
            res.append([dict(clause="edge_to_missing_vertex", episode=e, error=str(ex)[:120])])
            continue
        res.append([] if nx.is_directed_acyclic_graph(G) else [dict(clause="generated_graph_has_cycle", episode=e)])
    return res


def run_case(case):
    import jax

    from rex.artificial import augment_graphs, generate_graphs
    from rexmon import drive_comp as C
    from rexmon import specs as S

    rnd = random.Random(case["spec_seed"])
    items, counters, samples = [], Counter(), []
    npz = C.npz
    if case["kind"] == "gen":
        spec = S.rand_spec(case["spec_seed"], allow_blocking=False, allow_buffer=False, allow_advance=False, allow_phase=False, overrun=True,
                           zero_bias=0.25 if rnd.random() < 0.6 else 0.0, n_min=2, n_max=5)
        if rnd.random() < 0.3:
            c = rnd.choice(spec["conns"])
            rate = [n for n in spec["nodes"] if n["name"] == c["out"]][0]["rate"]
            mn = round(rnd.uniform(0, 0.5) / rate, 4)
            c["delay"] = ["train", round(mn + rnd.uniform(0, 1.0) / rate, 4), mn, round(mn + 1.5 / rate, 4), "zoh"]
        T = rnd.choice([0.5, 1.0, 2.0, 3.0])
        if rnd.random() < 0.3:  # a very slow node: exactly one or two steps inside the horizon
            slow = rnd.choice(spec["nodes"])
            slow["rate"] = rnd.choice([1, 2]) if T <= 1.0 else 1
            slow["delay"] = ["det", 0.01]
            spec["slow_node"] = slow["name"]
        dg = S.digest(spec)
        nodes, sup = S.build(spec, trace="none")
        E = rnd.randint(1, 4)
        cg = npz(generate_graphs(nodes, ts_max=T, rng=jax.random.PRNGKey(case["spec_seed"]), num_episodes=E))
        st = Counter()
        res = check_graph(cg, nodes, [T] * E, st)
        acy = acyclic_violations(cg, nodes)
        counters.update(st)
        for e, ((V, flags), Va) in enumerate(zip(res, acy)):
            V = V + Va
            nontriv = bool(flags["not_1to1"] or flags["tie"] or flags["overrun"])
            key = f"{dg}/{e}"
            if V:
                items.append(dict(status="violated", key=key, nontrivial=nontriv, witness=dict(mechanism=V[0]["clause"], violations=V[:4], spec=spec, ts_max=T, episodes=E)))
            else:
                items.append(dict(status="held", key=key, nontrivial=nontriv))
        samples.append(dict(kind="generate", spec_digest=dg, features=S.features(spec), episodes=E, ts_max=T, vertices=st["vertices_checked"], messages=st["edges_checked"],
                            ties=st["exact_ties"]))
        # ---- augmentation: remove one node (and its edges) from the generated graph and regenerate it
        victim = rnd.choice([n["name"] for n in spec["nodes"]])
        keep = {k: v for k, v in nodes.items() if k != victim}
        full = generate_graphs(nodes, ts_max=T, rng=jax.random.PRNGKey(case["spec_seed"]), num_episodes=E)
        part = full.filter(keep, filter_edges=False)
        pn = npz(part)
        try:
            aug = npz(augment_graphs(part, nodes, rng=jax.random.PRNGKey(case["spec_seed"] + 5)))
        except NotImplementedError as ex:
            items.append(dict(status="rejected", key=f"{dg}/augment", nontrivial=False, note=str(ex)[:100]))
            return dict(items=items, counters=dict(counters), samples=samples)
        V = check_augment(pn, aug, nodes, set(nodes), {(c["out"], c["inp"]) for c in spec["conns"]}, counters)
        tsm = [max(float(onp.asarray(v.ts_end[e]).max()) for v in pn.vertices.values()) for e in range(E)]
        new_nodes = {victim}
        new_edges = {k for k in aug.edges if k not in pn.edges}
        res = check_graph(aug, nodes, tsm, Counter(), only_nodes=new_nodes, only_edges=new_edges)
        for Ve, _ in res:
            V += Ve
        # un-batched input (single episode, 1-D arrays) must give the un-batched version of the same result
        try:
            part1 = jax.tree_util.tree_map(lambda x: x[0], part)
            aug1 = npz(augment_graphs(part1, nodes, rng=jax.random.PRNGKey(case["spec_seed"] + 5)))
            augb = npz(augment_graphs(jax.tree_util.tree_map(lambda x: x[:1], part), nodes, rng=jax.random.PRNGKey(case["spec_seed"] + 5)))
            counters["unbatched_augments_checked"] += 1
            for n_, v_ in augb.vertices.items():
                for f in ("seq", "ts_start", "ts_end"):
                    a1 = onp.asarray(getattr(aug1.vertices[n_], f))
                    if a1.ndim != 1 or not onp.array_equal(a1, onp.asarray(getattr(v_, f))[0]):
                        V.append(dict(clause="unbatched_augment_differs_from_batched", node=n_, field=f, ndim=int(a1.ndim)))
            for k_, e_ in augb.edges.items():
                for f in ("seq_out", "seq_in", "ts_recv"):
                    a1 = onp.asarray(getattr(aug1.edges[k_], f))
                    if a1.ndim != 1 or not onp.array_equal(a1, onp.asarray(getattr(e_, f))[0]):
                        V.append(dict(clause="unbatched_augment_differs_from_batched", conn=k_, field=f, ndim=int(a1.ndim)))
        except NotImplementedError:
            pass
        # un-batched graph in which an existing node stepped exactly ONCE (arrays of length 1) augmented with a new consumer
        try:
            from distrax import Deterministic as _Det

            from rex.base import Graph as _G, Vertex as _V
            from rexmon.witness import Witness as _W

            a1 = _W(name="a1", rate=1, delay_dist=_Det(0.01), idx=0, trace="none")
            b1 = _W(name="b1", rate=10, delay_dist=_Det(0.002), idx=1, trace="none")
            b1.connect(a1, window=1, delay_dist=_Det(0.003))
            g1 = _G(vertices={"a1": _V(seq=onp.array([0], onp.int32), ts_start=onp.array([0.0], onp.float32), ts_end=onp.array([0.01], onp.float32))}, edges={})
            r1 = npz(augment_graphs(g1, {"a1": a1, "b1": b1}, rng=jax.random.PRNGKey(3)))
            counters["single_step_augments_checked"] += 1
            for f in ("seq", "ts_start", "ts_end"):
                got1 = onp.asarray(getattr(r1.vertices["a1"], f))
                if got1.shape != (1,) or got1[0] != onp.asarray(getattr(g1.vertices["a1"], f))[0]:
                    V.append(dict(clause="augment_changed_existing_single_step_vertex", field=f, shape=list(got1.shape)))
            e1 = r1.edges.get(("a1", "b1"))
            if e1 is None or onp.asarray(e1.seq_out).shape != (1,) or int(onp.asarray(e1.seq_out)[0]) != 0:
                V.append(dict(clause="augment_single_step_edge_wrong", shape=None if e1 is None else list(onp.asarray(e1.seq_out).shape)))
        except NotImplementedError:
            pass
        key = f"{dg}/augment/{victim}"
        if V:
            items.append(dict(status="violated", key=key, nontrivial=True, witness=dict(mechanism=V[0]["clause"], violations=V[:4], spec=spec, removed=victim)))
        else:
            items.append(dict(status="held", key=key, nontrivial=True))
    else:  # augmentation of a recorded graph (blocking parts stay, new parts are generated)
        from rexmon import witness as W

        spec = S.rand_live(case["spec_seed"], n_min=2, n_max=4)
        dg = S.digest(spec)
        try:
            ex = C.record_experiment(spec, lengths=[rnd.randint(5, 8), rnd.randint(8, 12)], init_seed=case["spec_seed"], trace="none", max_records=600)
        except (C.Rejected, C.D.Stall) as e_:
            return dict(items=[dict(status="rejected", key=dg, nontrivial=False, note=str(e_)[:120])], counters={"rejected_record": 1})
        C.D.Monitor.uninstall()
        nodes = ex["nodes"]
        _, cg = C.experiment_graph(ex["episodes"])
        from distrax import Normal

        extra = W.Witness(name="zz", rate=rnd.choice([7, 15, 30]), delay_dist=Normal(0.004, 0.001), idx=9, trace="none")
        tgt = nodes[rnd.choice(list(nodes))]
        extra.connect(tgt, window=2, delay_dist=Normal(0.003, 0.001), skip=rnd.random() < 0.3)
        nodes2 = dict(nodes)
        nodes2["zz"] = extra
        new_edges = {(tgt.name, "zz")}
        if rnd.random() < 0.6:
            # the new node also SENDS to an already recorded (ragged, -1 padded) receiver
            rcv = nodes[rnd.choice(list(nodes))]
            rcv.connect(extra, window=1, delay_dist=Normal(0.002, 0.0005), skip=True)
            new_edges.add(("zz", rcv.name))
        pn = npz(cg)
        aug = npz(augment_graphs(cg, nodes2, rng=jax.random.PRNGKey(case["spec_seed"])))
        expected_edges = set(pn.edges) | new_edges
        V = check_augment(pn, aug, nodes2, set(nodes2), expected_edges, counters)
        E = len(ex["episodes"])
        tsm = [max(float(onp.asarray(v.ts_end[e]).max()) for v in pn.vertices.values()) for e in range(E)]
        res = check_graph(aug, nodes2, tsm, Counter(), only_nodes={"zz"}, only_edges=new_edges)
        for Ve, _ in res:
            V += Ve
        key = f"{dg}/augment-recorded"
        if V:
            items.append(dict(status="violated", key=key, nontrivial=True, witness=dict(mechanism=V[0]["clause"], violations=V[:4], spec=spec, target=tgt.name)))
        else:
            items.append(dict(status="held", key=key, nontrivial=True))
        samples.append(dict(kind="augment-recorded", spec_digest=dg, target=tgt.name, episodes=E))
    return dict(items=items, counters=dict(counters), samples=samples)


def check_augment(before, after, nodes, expected_vertices, expected_edges, counters):
    V = []
    for n, v in before.vertices.items():
        for f in ("seq", "ts_start", "ts_end"):
            counters["augment_arrays_compared"] += 1
            if n not in after.vertices or not onp.array_equal(onp.asarray(getattr(v, f)), onp.asarray(getattr(after.vertices[n], f))):
                V.append(dict(clause="augment_changed_existing_vertex", node=n, field=f))
    for k, ed in before.edges.items():
        for f in ("seq_out", "seq_in", "ts_recv"):
            counters["augment_arrays_compared"] += 1
            if k not in after.edges or not onp.array_equal(onp.asarray(getattr(ed, f)), onp.asarray(getattr(after.edges[k], f))):
                V.append(dict(clause="augment_changed_existing_edge", conn=k, field=f))
    if set(after.vertices) != set(expected_vertices):
        V.append(dict(clause="augment_vertex_keys", got=sorted(after.vertices), expected=sorted(expected_vertices)))
    if set(after.edges) != set(expected_edges):
        V.append(dict(clause="augment_edge_keys", got=sorted(after.edges), expected=sorted(expected_edges)))
    return V


def plan(tier, seed):
    ng, nr = (28, 4) if tier == "quick" else (450, 50)
    cases = [dict(name=f"gen-{i}", kind="gen", spec_seed=seed * 100183 + i, timeout=600) for i in range(ng)]
    cases += [dict(name=f"rec-{i}", kind="rec", spec_seed=seed * 100183 + 5000 + i, timeout=600) for i in range(nr)]
    return cases
