"""C16 — node phases and infos stay consistent with the configured delays (networkx longest-path reference beside the real nodes)."""
import random
from collections import Counter

import numpy as onp

RULE = ("random topologies (2-7 nodes, skipped back-edges, deterministic / normal / default delay distributions, explicit expected delays incl. "
        "exactly 0.0) built and then mutated by random histories of connect / Connection.set_delay / BaseNode.set_delay (distribution and/or "
        "expected delay) with phases and infos READ between the mutations; after every history step every node's phase, phase_output, every "
        "connection's phase and the infos are compared with a float64 longest-path recomputation over non-skipped connections; closing an "
        "un-skipped cycle (also after phases were read) must raise the algebraic-loop RecursionError; from_info + connect_from_info must "
        "reproduce infos, phases and per-connection settings; short simulated episodes after set_delay must show the NEW delays; one "
        "evaluation = one history step (or one round trip / episode); non-trivial = step on a topology with >=1 path of length >=2; distinct by "
        "topology digest x step index")
RULE += " Built later: shadow input names in the round trip; numpy bool skip flags; trainable connections whose expected delay differs from the distribution's delay."
MIN_NONTRIVIAL = {"quick": 300, "thorough": 8000}
DECIDING = ["phase_comparisons", "roundtrips_checked"]
ASSUMPTIONS = ["1e-7 tolerance: default expected delays are float32 quantiles, so summation order moves a phase by ~2e-9"]
LEVEL = "exploration"
WORKERS = 14
TOL = 1e-7


def reference_phases(nodes):
    """Longest expected-delay path into each node over non-skipped connections, computed from the public configuration only."""
    import networkx as nx

    G = nx.DiGraph()
    G.add_nodes_from(nodes)
    for n2, node in nodes.items():
        for c in node.inputs.values():
            if not c.skip:
                G.add_edge(c.output_node.name, n2, w=float(c.output_node.delay) + float(c.delay))
    if not nx.is_directed_acyclic_graph(G):
        return None
    ph = {}
    for v in nx.topological_sort(G):
        ph[v] = max([0.0] + [ph[u] + G.edges[u, v]["w"] for u in G.predecessors(v)])
    return ph


def compare_all(nodes, stats):
    V = []
    ref = reference_phases(nodes)
    if ref is None:
        loops = 0
        for n in nodes.values():
            try:
                _ = n.phase
            except RecursionError as e:
                loops += 1
                if "Algebraic loop" not in str(e):
                    V.append(dict(clause="cycle_error_without_algebraic_loop_message", node=n.name, msg=str(e)[:100]))
        stats["algebraic_loops_checked"] += 1
        if loops == 0:
            V.append(dict(clause="unskipped_cycle_not_reported"))
        return V, True
    for name, n in nodes.items():
        stats["phase_comparisons"] += 1
        try:
            ph = float(n.phase)
        except RecursionError as e:
            V.append(dict(clause="algebraic_loop_reported_without_cycle", node=name))
            continue
        if abs(ph - ref[name]) > TOL:
            V.append(dict(clause="phase_not_longest_delay_path", node=name, phase=ph, expected=ref[name]))
        if abs(float(n.phase_output) - (ref[name] + float(n.delay))) > TOL:
            V.append(dict(clause="phase_output", node=name, got=float(n.phase_output), expected=ref[name] + float(n.delay)))
        info = n.info
        if abs(float(info.phase) - ref[name]) > TOL or abs(float(info.delay) - float(n.delay)) > 0 or info.delay_dist is not n.delay_dist:
            V.append(dict(clause="node_info_stale", node=name, info_phase=float(info.phase), expected=ref[name]))
        if set(info.inputs) != {c.output_node.name for c in n.inputs.values()}:
            V.append(dict(clause="node_info_inputs", node=name))
        for key, c in n.inputs.items():
            u = c.output_node.name
            exp = ref[u] + float(c.output_node.delay) + float(c.delay)
            stats["phase_comparisons"] += 1
            if abs(float(c.phase) - exp) > TOL:
                V.append(dict(clause="connection_phase", conn=f"{u}->{name}", got=float(c.phase), expected=exp))
            ci = info.inputs[u]
            if abs(float(ci.phase) - exp) > TOL or float(ci.delay) != float(c.delay) or ci.delay_dist is not c.delay_dist or ci.window != c.window or ci.skip != c.skip or \
                    ci.blocking != c.blocking or ci.jitter != c.jitter or ci.name != key or ci.output != u:
                V.append(dict(clause="input_info_stale", conn=f"{u}->{name}", info_delay=float(ci.delay), delay=float(c.delay), info_phase=float(ci.phase), expected=exp))
    return V, False


def rand_dist(rnd):
    from distrax import Deterministic, Normal

    k = rnd.choice(["det", "det", "norm", "none"])
    if k == "det":
        return Deterministic(round(rnd.choice([0.0, rnd.uniform(0, 0.05)]), 4)), k
    if k == "norm":
        return Normal(round(rnd.uniform(0.001, 0.03), 4), round(rnd.uniform(0.0005, 0.01), 4)), k
    return None, k


def run_topology(rnd, stats, klass):
    """One topology + history. Returns (violations, nontrivial, description)."""
    import rex.constants as const

    N = rnd.randint(2, 7)
    nodes = {}
    for i in range(N):
        dd, _ = rand_dist(rnd)
        kw = dict(name=f"n{i}", rate=rnd.choice([5, 10, 20, 50]))
        if dd is not None:
            kw["delay_dist"] = dd
        if rnd.random() < 0.3:
            kw["delay"] = round(rnd.choice([0.0, rnd.uniform(0, 0.05)]), 4)
        nodes[f"n{i}"] = klass(**kw)
    order = list(range(N))
    rnd.shuffle(order)
    pos = {n: k for k, n in enumerate(order)}
    history = []
    V = []

    def do_connect(a, b, force_noskip=False):
        back = pos[a] > pos[b]
        dd, _ = rand_dist(rnd)
        skip_flag = (back and not force_noskip)
        if rnd.random() < 0.3:
            skip_flag = onp.bool_(skip_flag)  # flags taken from a numpy topology mask / from infos that went through tree_map
        kw = dict(window=rnd.randint(1, 3), blocking=rnd.random() < 0.4, skip=skip_flag,
                  jitter=rnd.choice([const.Jitter.LATEST, const.Jitter.BUFFER]))
        if dd is not None:
            kw["delay_dist"] = dd
        if rnd.random() < 0.4:
            kw["delay"] = round(rnd.choice([0.0, 0.0, rnd.uniform(0, 0.03)]), 4)
        if rnd.random() < 0.2:
            kw["name"] = f"in{a}"
        nodes[f"n{b}"].connect(nodes[f"n{a}"], **kw)
        history.append(("connect", a, b, {k: (str(v) if k in ("delay_dist", "jitter") else (bool(v) if k == "skip" else v)) for k, v in kw.items()}))

    pairs = [(a, b) for a in range(N) for b in range(N) if a != b]
    rnd.shuffle(pairs)
    todo = [p for p in pairs if rnd.random() < 0.45]
    steps = 0
    cyc_seen = False
    for (a, b) in todo[: max(1, len(todo) // 2)]:
        do_connect(a, b)
    # interleave reads and mutations
    ops = max(4, len(todo))
    rest = todo[max(1, len(todo) // 2):]
    for _ in range(ops):
        v, cyc = compare_all(nodes, stats)  # READ phases/infos (this is what a stale cache would need)
        steps += 1
        if v:
            V += [dict(x, after=history[-1] if history else None, step=steps) for x in v[:3]]
            break
        if cyc:
            cyc_seen = True
            break
        op = rnd.choice(["connect", "set_conn", "set_node", "set_node", "set_conn"])
        if op == "connect" and rest:
            a, b = rest.pop()
            if f"n{a}" in [c.output_node.name for c in nodes[f"n{b}"].inputs.values()]:
                continue
            do_connect(a, b)
        elif op == "set_conn":
            cs = [c for n in nodes.values() for c in n.inputs.values()]
            if not cs:
                continue
            c = rnd.choice(cs)
            dd, _ = rand_dist(rnd)
            dl = round(rnd.choice([0.0, rnd.uniform(0, 0.04)]), 4) if rnd.random() < 0.7 else None
            c.set_delay(delay_dist=dd, delay=dl)
            history.append(("conn.set_delay", c.output_node.name, c.input_node.name, str(dd), dl))
            if dd is not None:
                from rex import base

                got = c.delay_dist.dist if isinstance(c.delay_dist, base.StaticDist) else c.delay_dist
                if got is not dd:
                    V.append(dict(clause="set_delay_distribution_ignored", where="connection"))
            if dl is not None and c.delay != dl:
                V.append(dict(clause="set_delay_expected_delay_ignored", where="connection"))
        else:
            n = rnd.choice(list(nodes.values()))
            dd, _ = rand_dist(rnd)
            dl = round(rnd.choice([0.0, rnd.uniform(0, 0.04)]), 4) if rnd.random() < 0.7 else None
            n.set_delay(delay_dist=dd, delay=dl)
            history.append(("node.set_delay", n.name, str(dd), dl))
            if dd is not None:
                from rex import base

                got = n.delay_dist.dist if isinstance(n.delay_dist, base.StaticDist) else n.delay_dist
                if got is not dd:
                    V.append(dict(clause="set_delay_distribution_ignored", where="node"))
            if dl is not None and n.delay != dl:
                V.append(dict(clause="set_delay_expected_delay_ignored", where="node"))
    if not V and not cyc_seen:
        v, cyc = compare_all(nodes, stats)
        steps += 1
        V += v[:3]
        # ---- info round trip
        if not cyc and not v:
            stats["roundtrips_checked"] += 1
            infos = {k: n.info for k, n in nodes.items()}
            re = {k: klass.from_info(infos[k]) for k in nodes}
            for k in nodes:
                re[k].connect_from_info(infos[k].inputs, re)
            v2, _ = compare_all(re, Counter())
            V += [dict(x, where="rebuilt nodes") for x in v2[:2]]
            for k, n in nodes.items():
                r = re[k]
                if abs(float(r.phase) - float(n.phase)) > 1e-9 or float(r.delay) != float(n.delay) or r.rate != n.rate or r.advance != n.advance or r.scheduling != n.scheduling:
                    V.append(dict(clause="roundtrip_node_differs", node=k, phase=float(n.phase), rebuilt=float(r.phase)))
                if {c.output_node.name for c in r.inputs.values()} != {c.output_node.name for c in n.inputs.values()}:
                    V.append(dict(clause="roundtrip_connections_differ", node=k))
                    continue
                if set(r.inputs.keys()) != set(n.inputs.keys()):
                    V.append(dict(clause="roundtrip_input_names_differ", node=k, original=sorted(n.inputs.keys()), rebuilt=sorted(r.inputs.keys())))
                by_out = {c.output_node.name: c for c in r.inputs.values()}
                for c in n.inputs.values():
                    c2 = by_out[c.output_node.name]
                    if (c2.window, c2.skip, c2.blocking, c2.jitter, float(c2.delay)) != (c.window, c.skip, c.blocking, c.jitter, float(c.delay)) or c2.delay_dist is not c.delay_dist:
                        V.append(dict(clause="roundtrip_connection_settings_differ", conn=f"{c.output_node.name}->{k}", original=(c.window, c.skip, c.blocking, str(c.jitter), float(c.delay)),
                                      rebuilt=(c2.window, c2.skip, c2.blocking, str(c2.jitter), float(c2.delay))))
                ri, ni = r.info, n.info
                if abs(float(ri.phase) - float(ni.phase)) > 1e-9 or set(ri.inputs) != set(ni.inputs) or any(ri.inputs[u].name != ni.inputs[u].name for u in ni.inputs if u in ri.inputs):
                    V.append(dict(clause="roundtrip_info_differs", node=k))
            # ---- closing an un-skipped cycle AFTER phases were read must be reported
            if N >= 2 and rnd.random() < 0.5:
                ref = reference_phases(nodes)
                import networkx as nx

                G = nx.DiGraph()
                for n2, node in nodes.items():
                    for c in node.inputs.values():
                        if not c.skip:
                            G.add_edge(c.output_node.name, n2)
                cands = [(u, v) for u in nodes for v in nodes if u != v and v in G and u in G and nx.has_path(G, v, u) and u not in [c.output_node.name for c in nodes[v].inputs.values()]]
                if cands:
                    u, v = rnd.choice(cands)
                    nodes[v].connect(nodes[u], skip=False)  # v -> ... -> u already exists, u -> v closes the loop
                    history.append(("connect-closing-cycle", u, v))
                    v3, cyc = compare_all(nodes, stats)
                    V += v3[:2]
                    if not cyc:
                        V.append(dict(clause="harness_expected_cycle"))
    import networkx as nx

    depth = 0
    ref = None
    try:
        ref = reference_phases(nodes)
    except Exception:
        pass
    nontrivial = sum(1 for n in nodes.values() for c in n.inputs.values() if not c.skip) >= 2
    return V, nontrivial, dict(nodes=N, history=history[-6:], steps=steps)


def check_trainable_expected_delay(rnd, stats):
    """a trainable connection simulates its DISTRIBUTION's delay; the expected delay only moves phases"""
    from rex.base import TrainableDist
    from rex.node import BaseNode

    V = []
    a, b = BaseNode(name="a", rate=20), BaseNode(name="b", rate=10)
    mn = round(rnd.uniform(0, 0.01), 4)
    mx = round(mn + rnd.uniform(0.02, 0.1), 4)
    y = round(rnd.uniform(mn, mx), 4)
    x = round(rnd.uniform(0, 0.1), 4)
    route = rnd.choice(["connect", "set_dist", "set_delay"])
    if route == "connect":
        b.connect(a, delay=x, delay_dist=TrainableDist.create(y, mn, mx))
    elif route == "set_dist":
        b.connect(a, delay_dist=TrainableDist.create(mn, mn, mx))
        b.inputs["a"].set_delay(delay_dist=TrainableDist.create(y, mn, mx))
    else:
        b.connect(a, delay_dist=TrainableDist.create(y, mn, mx))
        b.inputs["a"].set_delay(delay=x)
    ins = b.init_inputs()
    got = float(ins["a"].delay_dist.mean())
    stats["trainable_expected_delay_checked"] += 1
    if abs(got - y) > 1e-5:
        V.append(dict(clause="trainable_connection_simulates_expected_delay_instead_of_distribution", route=route, distribution_delay=y, expected_delay=float(b.inputs["a"].delay),
                      simulated=got))
    return V


def run_async_episode(rnd, stats, seed):
    """set_delay must take effect in subsequent simulation."""
    from distrax import Deterministic

    from rexmon import drive_async as D
    from rexmon import specs as S
    from rexmon.monitors import c04

    spec = S.rand_live(seed, n_min=2, n_max=3, allow_blocking=False)
    nodes, sup = S.build(spec, trace="none")
    V = []
    # change every node's and connection's delay AFTER construction
    new_node, new_conn = {}, {}
    for k, n in nodes.items():
        d = round(rnd.uniform(0.001, 0.4 / n.rate), 5)
        n.set_delay(delay_dist=Deterministic(d), delay=d)
        new_node[k] = d
    for k, n in nodes.items():
        for c in n.inputs.values():
            d = round(rnd.uniform(0.0, 0.01), 5)
            c.set_delay(delay_dist=Deterministic(d), delay=d)
            new_conn[(c.output_node.name, k)] = d
    import jax
    import rex.constants as const
    from rex.asynchronous import AsyncGraph

    g = AsyncGraph(nodes, sup, clock=const.Clock.SIMULATED, real_time_factor=0)
    g.set_record_settings(params=False, rng=False, inputs=False, state=False, output=False, max_records=200)
    gs0 = g.init(jax.random.PRNGKey(seed))
    g.warmup(gs0)
    try:
        r = D.call_with_deadline(D.run_episode, 60, g, nodes, sup, gs0, "run", 8, 1, None, 0.03, True, True)
    except (D.Stall, TypeError) as e:
        return None
    rec = r["record"]
    stats["episodes_after_set_delay"] += 1
    for k, nr in rec.nodes.items():
        dl = onp.asarray(nr.steps.delay, float)
        if (onp.abs(dl - new_node[k]) > 1e-6).any():
            V.append(dict(clause="simulation_ignores_new_computation_delay", node=k, observed=float(dl[0]), configured=new_node[k]))
        if abs(float(nr.steps.ts_start[0]) - round(float(nodes[k].phase), 6)) > 1e-6:
            V.append(dict(clause="simulation_ignores_new_phase", node=k, ts_start0=float(nr.steps.ts_start[0]), phase=float(nodes[k].phase)))
        for m, ir in nr.inputs.items():
            ts, tr = onp.asarray(ir.messages.ts_sent, float), onp.asarray(ir.messages.ts_recv, float)
            prev = 0.0
            for j in range(len(ts)):
                exp = round(max(ts[j] + new_conn[(m, k)], prev), 6)
                if abs(exp - tr[j]) > 1.5e-6:
                    V.append(dict(clause="simulation_ignores_new_communication_delay", conn=f"{m}->{k}", observed=float(tr[j] - ts[j]), configured=new_conn[(m, k)]))
                    break
                prev = tr[j]
    v2, _ = compare_all(nodes, stats)
    V += v2[:2]
    return V


def run_case(case):
    from rex.node import BaseNode
    from rexmon import specs as S

    rnd = random.Random(case["spec_seed"])
    items, counters, samples = [], Counter(), []
    for t in range(case.get("n", 60)):
        st = Counter()
        try:
            V, nontriv, desc = run_topology(rnd, st, BaseNode)
        except RecursionError as e:
            V, nontriv, desc = [dict(clause="unexpected_recursion_error", msg=str(e)[:120])], True, {}
        counters.update(st)
        key = f"{case['spec_seed']}/{t}"
        # one evaluation per history step
        n_steps = max(1, desc.get("steps", 1))
        if V:
            items.append(dict(status="violated", key=key, nontrivial=nontriv, witness=dict(mechanism=V[0]["clause"], violations=V[:3], topology=desc)))
        else:
            items += [dict(status="held", key=f"{key}/{i}", nontrivial=nontriv) for i in range(n_steps)]
        if t == 0:
            samples.append(desc)
    for t in range(20):
        st = Counter()
        V = check_trainable_expected_delay(rnd, st)
        counters.update(st)
        key = f"{case['spec_seed']}/trainable{t}"
        items.append(dict(status="violated", key=key, nontrivial=True, witness=dict(mechanism=V[0]["clause"], violations=V[:2])) if V else dict(status="held", key=key, nontrivial=True))
    for e in range(case.get("episodes", 1)):
        st = Counter()
        V = run_async_episode(rnd, st, case["spec_seed"] * 7 + e)
        counters.update(st)
        key = f"{case['spec_seed']}/episode{e}"
        if V is None:
            items.append(dict(status="rejected", key=key, nontrivial=False, note="stall/empty record"))
        elif V:
            items.append(dict(status="violated", key=key, nontrivial=True, witness=dict(mechanism=V[0]["clause"], violations=V[:3])))
        else:
            items.append(dict(status="held", key=key, nontrivial=True))
    return dict(items=items, counters=dict(counters), samples=samples)


def plan(tier, seed):
    n, per, ep = (16, 120, 2) if tier == "quick" else (160, 300, 3)
    return [dict(name=f"t-{i}", spec_seed=seed * 100213 + i, n=per, episodes=ep, timeout=600) for i in range(n)]
