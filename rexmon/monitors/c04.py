"""C04 — step start times obey the rate / phase / delay / scheduling law (law re-evaluated from primary record fields)."""
import math

import numpy as onp

from rexmon.monitors import c03

RULE = ("random G_all witness graphs biased to overruns (computation delay mean 0.3-1.6 periods), both scheduling modes, advance "
        "on/off, late blocking arrivals, simulated clock; one evaluation = one recorded episode in which every step's start is "
        "recomputed from sched_k + drift, previous end and blocking arrivals; non-trivial = episode in which steps were shifted "
        "by at least two of the three terms (schedule / previous end / blocking arrival); distinct by spec digest x episode")
MIN_NONTRIVIAL = {"quick": 10, "thorough": 120}
DECIDING = ["steps", "by_sched"]
ASSUMPTIONS = ["the law is re-evaluated from ts_start/ts_end/delay/seq_in/ts_recv and the node configuration, never from the "
               "recorded phase_* diagnostics", "tolerance 5e-7 (rex rounds scheduled times and arrivals to 1e-6)",
               "sampled delay values are not replayed against the runtime's internal batch-of-50 rng convention; deterministic "
               "delays are checked exactly, stochastic ones by a 6-sigma bound on the episode mean"]
LEVEL = "exploration"
TOL = 5e-7


def _dist_moments(dist):
    """(mean, std) of max(X, 0) for the configured distrax distribution, or None."""
    import distrax

    d = dist.dist if hasattr(dist, "dist") else dist
    if isinstance(d, distrax.Deterministic):
        return float(d.loc), 0.0
    if isinstance(d, distrax.Normal):
        m, s = float(d.loc), float(d.scale)
        if s == 0:
            return max(m, 0.0), 0.0
        from math import erf, exp, pi, sqrt

        z = m / s
        Phi = 0.5 * (1 + erf(z / sqrt(2)))
        phi = exp(-0.5 * z * z) / sqrt(2 * pi)
        mean = m * Phi + s * phi
        return mean, s
    if isinstance(d, distrax.MixtureSameFamily):
        p = onp.array(d.mixture_distribution.probs, float)
        mu = onp.array(d.components_distribution.loc, float)
        sc = onp.array(d.components_distribution.scale, float)
        mean = float((p * mu).sum())
        var = float((p * (sc**2 + mu**2)).sum() - mean**2)
        return mean, math.sqrt(max(var, 0.0))
    return None


REF_PHASES = None


def check_record(rec, nodes, stats, wall_clock=False, own_nonce=None):
    global REF_PHASES
    from rexmon.monitors import c16

    REF_PHASES = c16.reference_phases(nodes)
    V = []

    def bad(clause, **kw):
        V.append(dict(clause=clause, **kw))

    R = rec.nodes
    for n, r in R.items():
        s = r.steps
        node = nodes[n]
        K = len(s.seq)
        ts, te, dl = onp.array(s.ts_start, float), onp.array(s.ts_end, float), onp.array(s.delay, float)
        if (dl < 0).any():
            bad("negative_delay", node=n)
        if (onp.abs(te - ts - dl) > 1e-9).any():
            k = int(onp.argmax(onp.abs(te - ts - dl) > 1e-9))
            bad("ts_end_not_start_plus_delay", node=n, k=k, ts_start=float(ts[k]), ts_end=float(te[k]), delay=float(dl[k]))
        mom = _dist_moments(node.delay_dist)
        if mom is not None:
            mean, std = mom
            if std == 0:
                if (onp.abs(dl - mean) > 1e-6).any():
                    k = int(onp.argmax(onp.abs(dl - mean) > 1e-6))
                    bad("deterministic_computation_delay", node=n, k=k, delay=float(dl[k]), expected=mean)
            elif K >= 30:
                z = abs(dl.mean() - mean) / (std / math.sqrt(K))
                stats["zmax"] = max(stats.get("zmax", 0.0), float(z))
                if z > 6.5:
                    bad("computation_delay_distribution", node=n, mean=float(dl.mean()), expected=mean, z=float(z), K=K)
        # blocking arrivals per step + communication delays
        arr = onp.zeros(K)
        for m, ir in r.inputs.items():
            key, c = c03.conn_of(node, m)
            msg = ir.messages
            so, si = onp.array(msg.seq_out), onp.array(msg.seq_in)
            tsent, trecv, mdl = onp.array(msg.ts_sent, float), onp.array(msg.ts_recv, float), onp.array(msg.delay, float)
            M = len(so)
            stats["msgs"] = stats.get("msgs", 0) + M
            cid = f"{m}->{n}"
            sender_te = onp.array(R[m].steps.ts_end, float)
            ok = so < len(sender_te)
            if ok.any() and (onp.abs(sender_te[so[ok]] - tsent[ok]) > 1e-9).any():
                bad("ts_sent_not_sender_ts_end", conn=cid)
            if (onp.abs((trecv - tsent) - mdl) > 1e-6).any():
                bad("message_delay_field", conn=cid)
            if (trecv - tsent < -1e-6).any():
                bad("negative_communication_delay", conn=cid)
            cm = _dist_moments(c.delay_dist)
            if cm is not None and M > 0:
                mean, std = cm
                if std == 0:
                    # ts_recv = round(max(ts_sent + d, previous ts_recv), 6)
                    prev = 0.0
                    for j in range(M):
                        exp = round(max(tsent[j] + mean, prev), 6)
                        if abs(exp - trecv[j]) > 1.5e-6:
                            bad("deterministic_communication_delay", conn=cid, j=j, ts_sent=float(tsent[j]), ts_recv=float(trecv[j]), expected=exp)
                            break
                        prev = trecv[j]
                elif M >= 30:
                    z = (mean - (trecv - tsent).mean()) / (std / math.sqrt(M))  # one-sided: the FIFO clamp can only add delay
                    if z > 6.5:
                        bad("communication_delay_distribution", conn=cid, mean=float((trecv - tsent).mean()), expected=mean, z=float(z))
            if c.blocking:
                valid = (si >= 0) & (si < K)
                for k_, t_ in zip(si[valid], trecv[valid]):
                    arr[k_] = max(arr[k_], t_)
        # ---- the law
        ph = float(REF_PHASES[n]) if REF_PHASES is not None else float(node.phase)  # longest expected-delay path, recomputed from the configuration
        D = 0.0
        only_blocking = bool(node.advance and all(cc.blocking for cc in node.inputs.values()))
        freq = node.scheduling.name == "FREQUENCY"
        overrun_seen = False
        for k in range(K):
            sched = round(k / node.rate + ph, 6)
            te_prev = te[k - 1] if k > 0 else 0.0
            exp = max(arr[k], te_prev) if only_blocking else max(arr[k], te_prev, sched + D)
            stats["steps"] = stats.get("steps", 0) + 1
            if abs(exp - ts[k]) > TOL:
                bad("ts_start_law", node=n, k=k, ts_start=float(ts[k]), expected=float(exp), sched=sched, drift=D, ts_end_prev=float(te_prev),
                    blocking_arrival=float(arr[k]), only_blocking=only_blocking, scheduling=node.scheduling.name)
                break
            if not only_blocking and ts[k] < sched - TOL:
                bad("started_before_schedule", node=n, k=k, ts_start=float(ts[k]), sched=sched)
            which = "arr" if (arr[k] > max(te_prev, -1 if only_blocking else sched + D) + TOL) else ("prev" if te_prev > sched + D + TOL else "sched")
            stats["by_" + which] = stats.get("by_" + which, 0) + 1
            stats.setdefault("_kinds", set()).add(which)
            # derived clauses
            if freq and not only_blocking and overrun_seen and k > 0 and arr[k] <= max(te_prev, sched + D) and arr[k - 1] <= ts[k - 1] - 0:
                if ts[k] - ts[k - 1] < 1.0 / node.rate - 1.5e-6 and not (arr[k - 1] >= ts[k - 1] - TOL and arr[k - 1] > 0):
                    bad("frequency_spacing", node=n, k=k, gap=float(ts[k] - ts[k - 1]), period=1.0 / node.rate)
            if (not freq) and not only_blocking and te_prev <= sched and arr[k] <= sched and abs(ts[k] - sched) > TOL:
                bad("phase_grid_return", node=n, k=k, ts_start=float(ts[k]), sched=sched)
            if te_prev > sched + D + TOL:
                overrun_seen = True
            D = max(D, te_prev - sched) if freq else 0.0
    kinds = stats.pop("_kinds", set())
    stats["multi_term_episodes"] = stats.get("multi_term_episodes", 0) + (1 if len(kinds) >= 2 else 0)
    stats["_multi"] = len(kinds) >= 2
    return V


def plan(tier, seed):
    n = 48 if tier == "quick" else 800
    return [dict(name=f"sim-{i}", kind="sim", spec_seed=seed * 100019 + 7 + i, steps=14 if tier == "quick" else 25, timeout=240) for i in range(n)]


def run_case(case):
    import random

    rnd = random.Random(case["spec_seed"] + 99)

    def between(nodes):
        # after the first episode (phases have been read), change an expected delay somewhere upstream: the next episode must use the NEW phases
        if rnd.random() < 0.6:
            n = rnd.choice(list(nodes.values()))
            if rnd.random() < 0.5 or not n.inputs:
                n.set_delay(delay=round(float(n.delay) + rnd.uniform(0.002, 0.02), 4))
            else:
                c = rnd.choice(list(n.inputs.values()))
                c.set_delay(delay=round(float(c.delay) + rnd.uniform(0.002, 0.02), 4))

    return c03.run_case(case, checker=check_record, pid="C04", nontrivial=lambda st: bool(st.get("_multi")), spec_fn=gen_spec, between_episodes=between)


def gen_spec(case):
    import random

    from rexmon import specs as S

    rnd = random.Random(case["spec_seed"])
    spec = S.rand_spec(case["spec_seed"], zero_bias=0.1 if rnd.random() < 0.3 else 0.0)
    return spec
