"""C14 — records and graphs convert, stack, pad and filter without loss (round-trip / conservation checker)."""
import itertools
import random
from collections import Counter

import numpy as onp

RULE = ("AsyncGraph recordings of G_live witness graphs (some connections with shadow input names) as ragged 2-3 episode experiments; checked: "
        "EpisodeRecord.to_graph equals the record fields; convert-then-stack, stack-then-convert and stack()[e].to_graph() agree with the single "
        "episodes once padding is stripped; padding is only -1 and only at the tail; Graph.stack/__getitem__/__len__; to_networkx_graph (with and "
        "without a nodes argument) has exactly the executed vertices and the stateful + consumed-message edges with the vertices' own times; "
        "Graph.filter / EpisodeRecord.filter / ExperimentRecord.filter for every non-empty node subset x flag keep exactly the selected nodes and "
        "the connections among them, leave the arrays untouched and do not modify their source (also when filtering twice with different "
        "subsets); one evaluation = one clause family on one experiment; non-trivial = experiment whose episodes have different vertex counts; "
        "distinct by spec digest x clause family")
RULE += ' Built later: a float32 graph stacked before a float64 one; networkx edge receive times; a sent-but-never-received message in the middle of an edge array.'
MIN_NONTRIVIAL = {"quick": 20, "thorough": 300}
DECIDING = ["arrays_compared", "filters_checked"]
ASSUMPTIONS = ["an executed vertex is a record row with seq >= 0; a consumed-message relation is a message with seq_out >= 0 and seq_in >= 0"]
LEVEL = "exploration"
WORKERS = 12


def eq(a, b):
    a, b = onp.asarray(a), onp.asarray(b)
    return a.shape == b.shape and onp.array_equal(a, b)


def strip_eq(single, padded, stats, what, V, **kw):
    """padded[:len(single)] == single and the rest is -1."""
    single, padded = onp.asarray(single), onp.asarray(padded)
    n = len(single)
    stats["arrays_compared"] += 1
    if len(padded) < n or not onp.array_equal(padded[:n], single):
        V.append(dict(clause=what, detail="episode extracted from the stack differs from the original", **kw))
    elif not (padded[n:] == onp.array(-1).astype(padded.dtype)).all():  # -1 in the array's own dtype (all-ones for unsigned fields)
        V.append(dict(clause=what, detail="padding is not -1 at the tail", **kw))


def snapshot(graph):
    import jax

    return {"v": {k: {f: onp.array(getattr(v, f)) for f in ("seq", "ts_start", "ts_end")} for k, v in graph.vertices.items()},
            "e": {k: {f: onp.array(getattr(e, f)) for f in ("seq_out", "seq_in", "ts_recv")} for k, e in graph.edges.items()}}


def same_snapshot(a, b):
    if set(a["v"]) != set(b["v"]) or set(a["e"]) != set(b["e"]):
        return False
    for grp in ("v", "e"):
        for k in a[grp]:
            for f in a[grp][k]:
                if not eq(a[grp][k][f], b[grp][k][f]):
                    return False
    return True


def run_case(case):
    import jax
    import networkx as nx

    from rex import base
    from rex.utils import to_networkx_graph
    from rexmon import drive_comp as C
    from rexmon import specs as S

    rnd = random.Random(case["spec_seed"])
    spec = S.rand_live(case["spec_seed"], n_min=3, n_max=4)
    for c in spec["conns"]:
        if rnd.random() < 0.35:
            c["name"] = "in_" + c["out"]  # shadow input name
    dg = S.digest(spec)
    n_eps = rnd.choice([2, 3])
    lengths = [rnd.randint(4, 7) + 4 * i for i in range(n_eps)]
    rnd.shuffle(lengths)
    try:
        ex = C.record_experiment(spec, lengths=lengths, init_seed=case["spec_seed"], trace="none", max_records=600)
    except (C.Rejected, C.D.Stall) as e:
        return dict(items=[dict(status="rejected", key=dg, nontrivial=False, note=str(e)[:120])], counters={"rejected_record": 1})
    C.D.Monitor.uninstall()
    nodes = ex["nodes"]
    eps = [e["record"] for e in ex["episodes"]]
    exp = base.ExperimentRecord(episodes=eps)
    items, counters = [], Counter()
    families = {}

    def fam(name):
        return families.setdefault(name, [])

    # ---------- 1. to_graph equals the record
    singles = []
    for e, r in enumerate(eps):
        g = r.to_graph()
        singles.append(g)
        for n, nr in r.nodes.items():
            for f in ("seq", "ts_start", "ts_end"):
                counters["arrays_compared"] += 1
                if not eq(getattr(g.vertices[n], f), getattr(nr.steps, f)):
                    fam("to_graph").append(dict(clause="to_graph_vertex_differs_from_record", episode=e, node=n, field=f))
            for m, ir in nr.inputs.items():
                for f in ("seq_out", "seq_in", "ts_recv"):
                    counters["arrays_compared"] += 1
                    if (m, n) not in g.edges or not eq(getattr(g.edges[(m, n)], f), getattr(ir.messages, f)):
                        fam("to_graph").append(dict(clause="to_graph_edge_differs_from_record", episode=e, conn=(m, n), field=f))
        exp_edges = {(m, n) for n, nr in r.nodes.items() for m in nr.inputs}
        if set(g.edges) != exp_edges or set(g.vertices) != set(r.nodes):
            fam("to_graph").append(dict(clause="to_graph_keys", episode=e))
    # ---------- 2. stacking orders
    cg = exp.to_graph()  # convert, then stack
    stacked = exp.stack("padded")  # stack records
    cg2 = stacked.to_graph()  # then convert
    if len(cg) != n_eps:
        fam("stack").append(dict(clause="graph_len", got=len(cg), expected=n_eps))
    for e in range(n_eps):
        ge = singles[e]
        via = {"convert_then_stack[e]": cg[e], "stack_then_convert[e]": jax.tree_util.tree_map(lambda x: x[e], cg2), "stack[e].to_graph": stacked[e].to_graph()}
        for label, se in via.items():
            for n in ge.vertices:
                for f in ("seq", "ts_start", "ts_end"):
                    strip_eq(getattr(ge.vertices[n], f), getattr(se.vertices[n], f), counters, "stacked_vertex_differs", fam("stack"), path=label, episode=e, node=n, field=f)
            for k in ge.edges:
                for f in ("seq_out", "seq_in", "ts_recv"):
                    strip_eq(getattr(ge.edges[k], f), getattr(se.edges[k], f), counters, "stacked_edge_differs", fam("stack"), path=label, episode=e, conn=k, field=f)
        # record-level stack: step fields
        re_ = stacked[e]
        for n, nr in eps[e].nodes.items():
            for f in ("seq", "ts_start", "ts_end", "delay"):
                strip_eq(getattr(nr.steps, f), getattr(re_.nodes[n].steps, f), counters, "stacked_record_differs", fam("stack"), episode=e, node=n, field=f)
            if nr.steps.state is not None:
                strip_eq(nr.steps.state.h, onp.asarray(re_.nodes[n].steps.state.h), counters, "stacked_record_differs", fam("stack"),
                         episode=e, node=n, field="state.h")
    g_restack = base.Graph.stack(singles)
    if not same_snapshot(snapshot(g_restack), snapshot(cg)):
        fam("stack").append(dict(clause="graph_stack_differs_from_experiment_to_graph"))
    # mixed-precision stack: a float32/int32 graph (as generate_graphs returns) stacked before a float64/int64 recorded graph
    g32 = jax.tree_util.tree_map(lambda x: onp.asarray(x).astype(onp.float32 if onp.asarray(x).dtype.kind == "f" else onp.int32), singles[0])
    for order in ((g32, singles[-1]), (singles[-1], g32)):
        mixed = base.Graph.stack(list(order))
        idx = 1 if order[0] is g32 else 0
        me = jax.tree_util.tree_map(lambda x: x[idx], mixed)
        ge = singles[-1]
        for n in ge.vertices:
            for f in ("seq", "ts_start", "ts_end"):
                strip_eq(getattr(ge.vertices[n], f), getattr(me.vertices[n], f), counters, "mixed_precision_stack_altered_episode", fam("stack"), node=n, field=f, float64_episode_position=idx)
        for k in ge.edges:
            for f in ("seq_out", "seq_in", "ts_recv"):
                strip_eq(getattr(ge.edges[k], f), getattr(me.edges[k], f), counters, "mixed_precision_stack_altered_episode", fam("stack"), conn=k, field=f, float64_episode_position=idx)
    # ---------- 3. networkx
    for e in range(n_eps):
        ge = C.npz(singles[e])
        exp_nodes = {f"{n}_{int(s)}" for n, v in ge.vertices.items() for s in v.seq if s >= 0}
        exp_edges = {(f"{n}_{int(s) - 1}", f"{n}_{int(s)}") for n, v in ge.vertices.items() for s in v.seq if s > 0}
        exp_edges |= {(f"{k[0]}_{int(a)}", f"{k[1]}_{int(b)}") for k, ed in ge.edges.items() for a, b in zip(ed.seq_out, ed.seq_in) if a >= 0 and b >= 0}
        for label, graph, kw in (("single", singles[e], dict(nodes=nodes)), ("from_stack", cg[e], dict(nodes=nodes)), ("stack_then_convert", stacked[e].to_graph(), dict(nodes=nodes)),
                                 ("no_nodes_arg", singles[e], dict())):
            try:
                Gx = to_networkx_graph(graph, validate=True, **kw)
            except Exception as ex_:
                fam("networkx").append(dict(clause="to_networkx_graph_raises", path=label, episode=e, error=f"{type(ex_).__name__}: {ex_}"[:160]))
                continue
            counters["networkx_graphs_checked"] += 1
            if set(Gx.nodes) != exp_nodes:
                fam("networkx").append(dict(clause="networkx_vertices_not_the_executed_ones", path=label, episode=e, extra=sorted(set(Gx.nodes) - exp_nodes)[:4],
                                            missing=sorted(exp_nodes - set(Gx.nodes))[:4]))
            if set(Gx.edges) != exp_edges:
                fam("networkx").append(dict(clause="networkx_edges_not_the_consumed_relations", path=label, episode=e, extra=sorted(set(Gx.edges) - exp_edges)[:4],
                                            missing=sorted(exp_edges - set(Gx.edges))[:4]))
            for k_, ed_ in ge.edges.items():
                for a_, b_, t_ in zip(ed_.seq_out, ed_.seq_in, ed_.ts_recv):
                    if a_ >= 0 and b_ >= 0:
                        dd_ = Gx.edges.get((f"{k_[0]}_{int(a_)}", f"{k_[1]}_{int(b_)}"))
                        if dd_ is not None and dd_.get("ts_recv") != t_:
                            fam("networkx").append(dict(clause="networkx_edge_receive_time_not_the_messages", path=label, edge=(f"{k_[0]}_{int(a_)}", f"{k_[1]}_{int(b_)}"), got=float(dd_.get("ts_recv")), expected=float(t_)))
                            break
            for n, v in ge.vertices.items():
                for s, a, b in zip(v.seq, v.ts_start, v.ts_end):
                    if s >= 0:
                        d = Gx.nodes.get(f"{n}_{int(s)}")
                        if d is not None and (d["ts_start"] != a or d["ts_end"] != b or d["seq"] != s or d["kind"] != n):
                            fam("networkx").append(dict(clause="networkx_vertex_attributes", vertex=f"{n}_{int(s)}"))
                            break
    # a graph in which a message was sent but never received (seq_in = -1 in the MIDDLE of an edge array, allowed by the Edge docstring)
    g_lost = C.npz(singles[-1])
    k_l = rnd.choice(sorted(g_lost.edges))
    ed_l = g_lost.edges[k_l]
    if len(ed_l.seq_in) >= 3:
        j_l = rnd.randrange(1, len(ed_l.seq_in) - 1)
        si_l = onp.array(ed_l.seq_in)
        si_l[j_l] = -1
        g_lost = g_lost.replace(edges={**g_lost.edges, k_l: ed_l.replace(seq_in=si_l)})
        try:
            Gl = to_networkx_graph(g_lost, nodes=nodes, validate=True)
            counters["networkx_graphs_checked"] += 1
            for kk_, ee_ in g_lost.edges.items():
                for a_, b_, t_ in zip(ee_.seq_out, ee_.seq_in, ee_.ts_recv):
                    u_, v_ = f"{kk_[0]}_{int(a_)}", f"{kk_[1]}_{int(b_)}"
                    if a_ >= 0 and b_ >= 0:
                        dd_ = Gl.edges.get((u_, v_))
                        if dd_ is None or dd_.get("ts_recv") != t_:
                            fam("networkx").append(dict(clause="networkx_edge_wrong_after_lost_message", edge=(u_, v_), got=None if dd_ is None else float(dd_.get("ts_recv")), expected=float(t_), lost_index=j_l))
                            break
            if (f"{k_l[0]}_{int(ed_l.seq_out[j_l])}", f"{k_l[1]}_{int(ed_l.seq_in[j_l])}") in Gl.edges and int(ed_l.seq_in[j_l]) not in [int(x) for i_, x in enumerate(si_l) if i_ != j_l and ed_l.seq_out[i_] == ed_l.seq_out[j_l]]:
                fam("networkx").append(dict(clause="networkx_edge_for_never_received_message"))
        except Exception as ex_:
            fam("networkx").append(dict(clause="to_networkx_graph_raises", path="lost_message", error=f"{type(ex_).__name__}: {ex_}"[:160]))
    # ---------- 4. filters
    names = list(nodes)
    subsets = [c for r_ in range(1, len(names) + 1) for c in itertools.combinations(names, r_)]
    rnd.shuffle(subsets)
    real_edges = set(cg.edges)
    before = snapshot(cg)
    prev = None
    for sub in subsets[: case.get("subsets", 8)]:
        subn = {n: nodes[n] for n in sub}
        for flag in (True, False):
            counters["filters_checked"] += 1
            f = cg.filter(subn, filter_edges=flag)
            exp_e = {k for k in real_edges if k[0] in subn and k[1] in subn}
            if set(f.vertices) != set(sub):
                fam("filter").append(dict(clause="graph_filter_vertices", subset=sub, flag=flag, got=sorted(f.vertices)))
            if set(f.edges) != exp_e:
                fam("filter").append(dict(clause="graph_filter_edges_not_the_connections_among_selected", subset=sub, flag=flag, got=sorted(f.edges), expected=sorted(exp_e)))
            for n in set(f.vertices) & set(before["v"]):
                for fld in ("seq", "ts_start", "ts_end"):
                    if not eq(getattr(f.vertices[n], fld), before["v"][n][fld]):
                        fam("filter").append(dict(clause="graph_filter_altered_arrays", subset=sub, node=n, field=fld))
            for k in set(f.edges) & set(before["e"]):
                for fld in ("seq_out", "seq_in", "ts_recv"):
                    if not eq(getattr(f.edges[k], fld), before["e"][k][fld]):
                        fam("filter").append(dict(clause="graph_filter_altered_arrays", subset=sub, conn=k, field=fld))
            if not same_snapshot(before, snapshot(cg)):
                fam("filter").append(dict(clause="graph_filter_modified_its_source", subset=sub, flag=flag, source_vertices=sorted(cg.vertices), source_edges=len(cg.edges)))
                cg = exp.to_graph()
            if prev is not None and not same_snapshot(prev[1], snapshot(prev[0])):
                fam("filter").append(dict(clause="later_filter_changed_earlier_result", subset=sub))
            prev = (f, snapshot(f))
            # record filters
            for rf in (exp.filter(subn, filter_connections=flag).episodes[0], eps[0].filter(subn, filter_connections=flag)):
                counters["filters_checked"] += 1
                if set(rf.nodes) != set(sub):
                    fam("filter").append(dict(clause="record_filter_nodes", subset=sub, flag=flag, got=sorted(rf.nodes)))
                    continue
                for n2, nr in rf.nodes.items():
                    exp_in = {m for m in eps[0].nodes[n2].inputs if m in subn}
                    if set(nr.inputs) != exp_in or set(nr.info.inputs) != exp_in:
                        fam("filter").append(dict(clause="record_filter_connections_not_those_among_selected", subset=sub, flag=flag, node=n2, got=sorted(nr.inputs),
                                                  info=sorted(nr.info.inputs), expected=sorted(exp_in)))
                    if not eq(nr.steps.ts_start, eps[0].nodes[n2].steps.ts_start):
                        fam("filter").append(dict(clause="record_filter_altered_arrays", node=n2))
            if set(eps[0].nodes) != set(nodes):
                fam("filter").append(dict(clause="record_filter_modified_its_source"))
    ragged = len({tuple(len(r.nodes[n].steps.seq) for n in sorted(r.nodes)) for r in eps}) > 1
    for name in ("to_graph", "stack", "networkx", "filter"):
        V = families.get(name, [])
        key = f"{dg}/{name}"
        if V:
            items.append(dict(status="violated", key=key, nontrivial=ragged, witness=dict(mechanism=V[0]["clause"], violations=V[:4], spec=spec, lengths=lengths)))
        else:
            items.append(dict(status="held", key=key, nontrivial=ragged))
    return dict(items=items, counters=dict(counters), samples=[dict(spec_digest=dg, lengths=lengths, nodes=len(nodes), shadow_names=[c.get("name") for c in spec["conns"] if c.get("name")],
                                                                 rows=[{n: len(r.nodes[n].steps.seq) for n in r.nodes} for r in eps])])


def plan(tier, seed):
    n = 16 if tier == "quick" else 200
    return [dict(name=f"x-{i}", spec_seed=seed * 100193 + i, subsets=8 if tier == "quick" else 15, timeout=420) for i in range(n)]
