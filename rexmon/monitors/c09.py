"""C09 — compiled execution is a pure function of the graph state, independent of the driving API (differential monitor)."""
import random
from collections import Counter

import numpy as onp

RULE = ("generated G_gen witness graphs (2-3 stochastic episodes, all supergraph modes x prune) driven through run^n (eager and jit), "
        "reset+step^n, rollout carry-only and full trajectory, step with the supervisor's own (step_state, output) passed in, vmap "
        "over a batch of seeds vs single runs, init with a params override dict passed to init twice, starting_eps/starting_step in "
        "and out of range (negative and too large; episodes differ so clip and wrap are distinguishable); every pair that the property "
        "says must agree is compared leaf by leaf (exact: witness state is integer); one evaluation = one identity checked on one "
        "graph; non-trivial = graph with >=2 episodes on which >=3 API paths were compared; distinct by spec digest x mode x identity")
RULE += ' Built later: rollouts started from a non-zero step (rollout;rollout, late start); a falsy params override (bare scalar 0).'
MIN_NONTRIVIAL = {"quick": 30, "thorough": 400}
DECIDING = ["leaves_compared", "identities_checked"]
ASSUMPTIONS = ["trace-free witnesses (io_callback does not batch under vmap)", "timings_eps is part of the compared state (it decides what the steps see)"]
LEVEL = "exploration"
WORKERS = 10


def tree_diff(a, b, stats, max_report=3):
    import jax

    la, ta = jax.tree_util.tree_flatten_with_path(a)
    lb, tb = jax.tree_util.tree_flatten_with_path(b)
    if ta != tb:
        return [dict(what="tree structure differs")]
    out = []
    for (pa, x), (pb, y) in zip(la, lb):
        x, y = onp.asarray(x), onp.asarray(y)
        stats["leaves_compared"] += 1
        same = x.shape == y.shape and (onp.array_equal(x, y) or (x.dtype.kind == "f" and onp.array_equal(x, y, equal_nan=True)))
        if not same:
            out.append(dict(leaf=jax.tree_util.keystr(pa), a=x.ravel()[:4].tolist(), b=y.ravel()[:4].tolist(), shape_a=list(x.shape), shape_b=list(y.shape)))
            if len(out) >= max_report:
                break
    return out


def run_case(case):
    import jax
    import jax.numpy as jnp

    from rexmon import drive_comp as C
    from rexmon import specs as S
    from rexmon import witness as W

    rnd = random.Random(case["spec_seed"])
    spec = S.rand_gen(case["spec_seed"], n_min=2, n_max=4)
    # make the episodes differ: at least one stochastic delay
    if not any(S.is_jittery(n["delay"]) for n in spec["nodes"]) and not any(S.is_jittery(c["delay"]) for c in spec["conns"]):
        n0 = spec["nodes"][0]
        n0["delay"] = ["norm", round(0.3 / n0["rate"], 4), round(0.1 / n0["rate"], 4)]
    dg = S.digest(spec)
    n_eps = rnd.choice([2, 3])
    nodes, sup, cg = C.generated_graph(spec, ts_max=rnd.choice([0.6, 0.9]), num_episodes=n_eps, seed=case["spec_seed"], trace="none")
    mode = case.get("mode") or rnd.choice(["mcs", "gen", "top"])
    prune = rnd.random() < 0.5
    try:
        G = C.build_compiled(nodes, sup, cg, mode=mode, prune=prune)
    except C.Rejected as e:
        return dict(items=[dict(status="rejected", key=dg, nontrivial=False, note=str(e)[:120])], counters={"rejected_graph": 1})
    items, counters, samples = [], Counter(), []
    N = G.max_steps
    n = min(rnd.randint(2, 5), N)
    eps = rnd.randrange(n_eps)
    key0 = jax.random.PRNGKey(case["spec_seed"] + 1)
    gs0 = G.init(key0, starting_eps=eps)
    run_j, step_j, reset_j = jax.jit(G.run), jax.jit(G.step), jax.jit(G.reset)
    paths = 0

    def verdict(name, a, b, extra=None):
        st = Counter()
        d = tree_diff(a, b, st)
        counters.update(st)
        counters["identities_checked"] += 1
        key = f"{dg}/{mode}/{prune}/{name}"
        if d:
            items.append(dict(status="violated", key=key, nontrivial=n_eps >= 2, witness=dict(mechanism=name.split("[")[0], identity=name, diffs=d, spec=spec, mode=mode,
                                                                                             prune=prune, n=n, eps=eps, extra=extra)))
        else:
            items.append(dict(status="held", key=key, nontrivial=n_eps >= 2))

    a = gs0
    for i in range(n):
        a = run_j(a)
    b = gs0
    for i in range(n):
        b = G.run(b)
    verdict("jit_run_vs_eager_run", a, b)
    c = jax.jit(lambda g: G.rollout(g, max_steps=n, carry_only=True))(gs0)
    verdict("rollout_carry_vs_run", a, c)
    d = jax.jit(lambda g: G.rollout(g, max_steps=n, carry_only=False))(gs0)
    verdict("rollout_full_last_vs_run", a, jax.tree_util.tree_map(lambda x: x[-1], d))
    i_mid = rnd.randrange(n)
    m = gs0
    for i in range(i_mid + 1):
        m = run_j(m)
    verdict("rollout_full_i_vs_run_i", m, jax.tree_util.tree_map(lambda x: x[i_mid], d), extra=dict(i=i_mid))
    e1, _ = reset_j(a)
    e2, ss = reset_j(gs0)
    for i in range(n):
        e2, ss = step_j(e2)
    verdict("reset_after_run_vs_step_after_reset", e1, e2)
    f, ss = G.reset(gs0)
    for i in range(n):
        new_ss, out = sup.step(ss)
        f, ss = G.step(f, new_ss, out)
    verdict("step_with_own_result_vs_step", e2, f)
    # rollout started from a state whose step counter is not 0: max_steps is a NUMBER of steps, not an end index
    if n >= 2:
        k1 = rnd.randint(1, n - 1)
        r1 = jax.jit(lambda g: G.rollout(g, max_steps=k1, carry_only=True))(gs0)
        r2 = jax.jit(lambda g: G.rollout(g, max_steps=n - k1, carry_only=True))(r1)
        verdict("rollout_then_rollout_vs_run", a, r2, extra=dict(first=k1, second=n - k1))
        r3 = jax.jit(lambda g: G.rollout(g, max_steps=n - k1, carry_only=False))(r1)
        verdict("rollout_full_from_nonzero_step_vs_run", a, jax.tree_util.tree_map(lambda x: x[-1], r3))
        if N >= 3:
            s0_ = rnd.randint(1, N - 2)
            m_ = min(2, N - s0_)
            gl = G.init(key0, starting_eps=eps, starting_step=s0_)
            x1 = gl
            for _ in range(m_):
                x1 = run_j(x1)
            x2 = jax.jit(lambda g: G.rollout(g, max_steps=m_, carry_only=True))(gl)
            verdict("rollout_after_late_start_vs_run", x1, x2, extra=dict(starting_step=s0_, steps=m_))
    # rollout default length == run^max_steps
    if N <= 8:
        full = jax.jit(G.rollout)(gs0)
        z = gs0
        for i in range(N):
            z = run_j(z)
        verdict("rollout_default_vs_run_max_steps", z, full)
    # vmap
    keys = jax.random.split(jax.random.PRNGKey(case["spec_seed"] + 7), 3)
    batch = jax.vmap(lambda k: G.init(k, starting_eps=eps))(keys)
    vb = jax.jit(jax.vmap(lambda g: G.rollout(g, max_steps=n)))(batch)
    for i in range(3):
        single = G.init(keys[i], starting_eps=eps)
        for _ in range(n):
            single = run_j(single)
        verdict(f"vmap_vs_single[{i}]", single, jax.tree_util.tree_map(lambda x: x[i], vb))
    # batched starting episodes (vmapped init over eps)
    eb = jnp.arange(n_eps)
    binit = jax.vmap(lambda e_: G.init(key0, starting_eps=e_))(eb)
    bro = jax.jit(jax.vmap(lambda g: G.rollout(g, max_steps=n)))(binit)
    for e_ in range(n_eps):
        s_ = G.init(key0, starting_eps=e_)
        for _ in range(n):
            s_ = run_j(s_)
        verdict(f"vmap_eps_vs_single[{e_}]", s_, jax.tree_util.tree_map(lambda x: x[e_], bro))
    # out-of-range episode / step: clipped, not wrapped. Compared AFTER running (the timings decide what the steps see).
    for bad_eps, clip in [(-1, 0), (-2, 0), (n_eps, n_eps - 1), (n_eps + 3, n_eps - 1)]:
        x = G.init(key0, starting_eps=bad_eps)
        y = G.init(key0, starting_eps=clip)
        verdict(f"init_eps_clip[{bad_eps}]", x, y)
        for _ in range(min(n, 3)):
            x, y = run_j(x), run_j(y)
        verdict(f"run_after_eps_clip[{bad_eps}]", x, y)
        xr = jax.jit(lambda g: G.rollout(g, max_steps=min(n, 3)))(G.init(key0, starting_eps=bad_eps))
        verdict(f"rollout_after_eps_clip[{bad_eps}]", xr, y)
    for bad_step, clip in [(-3, 0), (N + 5, N)]:
        x = G.init(key0, starting_eps=eps, starting_step=bad_step)
        y = G.init(key0, starting_eps=eps, starting_step=clip)
        verdict(f"init_step_clip[{bad_step}]", x, y)
        verdict(f"run_after_step_clip[{bad_step}]", run_j(x), run_j(y))
    # starting step in range: what the first executed partition is
    s0 = rnd.randint(1, max(1, N - 1))
    x = G.init(key0, starting_eps=eps, starting_step=s0)
    if int(x.step) != s0:
        items.append(dict(status="violated", key=f"{dg}/{mode}/{prune}/starting_step", nontrivial=True,
                          witness=dict(mechanism="starting_step_not_used", got=int(x.step), wanted=s0, spec=spec)))
    # params override: passed as a plain dict, twice, with different seeds; the override must be what the steps see
    ov_name = rnd.choice(list(nodes))
    ov = {ov_name: W.WParams(nonce=jnp.int32(777))}
    k1, k2 = jax.random.PRNGKey(11), jax.random.PRNGKey(12)
    p1 = G.init(k1, params=ov, starting_eps=eps)
    p2 = G.init(k2, params=ov, starting_eps=eps)
    p2_fresh = G.init(k2, params={ov_name: W.WParams(nonce=jnp.int32(777))}, starting_eps=eps)
    verdict("init_params_override_twice_same_dict", p2, p2_fresh)
    if set(ov.keys()) != {ov_name}:
        items.append(dict(status="violated", key=f"{dg}/{mode}/{prune}/init_mutates_params_argument", nontrivial=True,
                          witness=dict(mechanism="init_mutates_params_argument", keys=sorted(ov.keys()), spec=spec)))
    if int(p1.params[ov_name].nonce) != 777:
        items.append(dict(status="violated", key=f"{dg}/{mode}/{prune}/params_override_ignored", nontrivial=True,
                          witness=dict(mechanism="params_override_ignored", got=int(p1.params[ov_name].nonce), spec=spec)))
    q1 = run_j(run_j(p2))
    q2 = run_j(run_j(p2_fresh))
    verdict("run_after_params_override", q1, q2)
    # overridden params are visible in what the steps compute: different nonce -> different witness hashes
    base = G.init(k2, starting_eps=eps)
    rb = run_j(run_j(base))
    sched_kinds = {sl.kind for sl in G.timings.slots.values()}
    if ov_name in sched_kinds and ov_name != sup.name and int(rb.state[ov_name].cnt) > 0:
        counters["override_visibility_checked"] += 1
        if int(q1.state[ov_name].h) == int(rb.state[ov_name].h):
            items.append(dict(status="violated", key=f"{dg}/{mode}/{prune}/override_not_seen_by_steps", nontrivial=True,
                              witness=dict(mechanism="override_not_seen_by_steps", node=ov_name, spec=spec)))
    # a FALSY params override (a bare scalar 0) is still an override
    try:
        sp_nodes, sp_sup = S.build(spec, trace="none", node_cls=W.ScalarParamWitness)
        cg2 = cg
        G2 = C.build_compiled(sp_nodes, sp_sup, cg2, mode=mode, prune=prune)
        z = G2.init(k1, params={ov_name: jnp.int32(0)}, starting_eps=eps)
        counters["falsy_overrides_checked"] += 1
        if int(z.params[ov_name]) != 0:
            items.append(dict(status="violated", key=f"{dg}/{mode}/{prune}/falsy_params_override_ignored", nontrivial=True,
                              witness=dict(mechanism="falsy_params_override_ignored", got=int(z.params[ov_name]), given=0, node=ov_name, spec=spec)))
        else:
            items.append(dict(status="held", key=f"{dg}/{mode}/{prune}/falsy_params_override", nontrivial=True))
    except C.Rejected:
        pass
    # order argument of init: nodes listed in order are initialised first; result must not depend on it for constant inits except rng split
    samples.append(dict(spec_digest=dg, mode=mode, prune=prune, episodes=n_eps, max_steps=N, n=n, eps=eps, identities=counters["identities_checked"]))
    return dict(items=items, counters=dict(counters), samples=samples)


def plan(tier, seed):
    n = 12 if tier == "quick" else 150
    modes = ["mcs", "gen", "top"]
    return [dict(name=f"g-{i}", spec_seed=seed * 100151 + i, mode=modes[i % 3], timeout=900) for i in range(n)]
