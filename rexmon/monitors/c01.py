"""C01 — compiled replay reproduces the recorded asynchronous execution step for step (differential monitor)."""
import random
from collections import Counter

import numpy as onp

RULE = ("G_all witness graphs (blocking/skip/BUFFER/advance/PHASE, stochastic + overrun delays, a fifth with one node >=11x faster than "
        "the supervisor) recorded by AsyncGraph under schedule perturbation for 2-3 episodes of different length (run() or reset/step "
        "driving), converted with ExperimentRecord.to_graph, compiled with two (mode, prune) pairs per experiment and re-executed with "
        "jit(rollout) or reset/step from the async initial rng/params/state; every scheduled vertex inside the horizon is compared "
        "field by field (eps, seq, ts_start, rng, state, window seq/ts_sent/ts_recv/payload, output) in the compiled record AND in the "
        "witness host trace; one evaluation = one (experiment, mode, prune, episode); non-trivial = >=2 non-supervisor nodes, >=1 "
        "window>1, >=30 compared steps; distinct by spec digest x mode x prune x episode")
RULE += ' Built later: some graphs are compiled with extra_padding / larger user buffer sizes (replay must not depend on an admissible buffer configuration).'
MIN_NONTRIVIAL = {"quick": 12, "thorough": 150}
DECIDING = ["steps_compared", "trace_steps_compared"]
ASSUMPTIONS = ["negative window sequence numbers are one class; +-0.0 canonicalised; timestamps compared after float32 cast (both sides come "
               "from the same float64 record)", "the last supervisor step's output is excluded (async records none when stopping)"]
LEVEL = "exploration"
WORKERS = 12


def f32(x):
    a = onp.asarray(x, dtype=onp.float32)
    return onp.where(a == 0, onp.float32(0), a)


def compare_rows(arec, crec, sched_rows, N, sup_name, stats):
    """arec: async episode record (numpy); crec: compiled record (numpy); sched_rows: schedule of that episode."""
    V = []
    for row in sched_rows:
        if row["partition"] >= N:
            continue
        n, k = row["kind"], row["seq"]
        a, c = arec.nodes[n].steps, crec.nodes[n].steps
        if k >= len(a.seq):
            V.append(dict(clause="compiled_executes_tick_not_in_record", node=n, seq=k, recorded=len(a.seq)))
            continue
        stats["steps_compared"] += 1

        def diff(name, x, y):
            x, y = onp.asarray(x), onp.asarray(y)
            if x.shape != y.shape or not onp.array_equal(x, y):
                V.append(dict(clause="replay_differs", node=n, seq=k, field=name, async_=x.tolist(), compiled=y.tolist()))
                return True
            return False

        if int(c.seq[k]) != k:
            V.append(dict(clause="compiled_row_not_written", node=n, seq=k, got=int(c.seq[k])))
            continue
        if diff("eps", onp.int64(a.eps[k]), onp.int64(c.eps[k])):
            continue
        diff("ts_start", f32(a.ts_start[k]), f32(c.ts_start[k]))
        diff("rng", onp.asarray(a.rng[k], dtype=onp.uint32), onp.asarray(c.rng[k], dtype=onp.uint32))
        diff("state.h", onp.uint32(a.state.h[k]), onp.uint32(c.state.h[k]))
        diff("state.cnt", onp.int64(a.state.cnt[k]), onp.int64(c.state.cnt[k]))
        for key in a.inputs:
            ia, ic = a.inputs[key], c.inputs[key]
            sa, sc = onp.asarray(ia.seq[k]), onp.asarray(ic.seq[k])
            diff(f"inputs[{key}].seq", onp.where(sa < 0, -1, sa), onp.where(sc < 0, -1, sc))
            real = sa >= 0
            diff(f"inputs[{key}].ts_sent", f32(ia.ts_sent[k])[real], f32(ic.ts_sent[k])[real])
            diff(f"inputs[{key}].ts_recv", f32(ia.ts_recv[k])[real], f32(ic.ts_recv[k])[real])
            for fld in ("src", "seq", "nonce", "h", "vec"):
                diff(f"inputs[{key}].data.{fld}", onp.asarray(getattr(ia.data, fld)[k]).astype(onp.int64), onp.asarray(getattr(ic.data, fld)[k]).astype(onp.int64))
            stats["windows_compared"] += 1
        if k < len(a.output.h):
            diff("output.h", onp.uint32(a.output.h[k]), onp.uint32(c.output.h[k]))
            diff("output.seq", onp.int64(a.output.seq[k]), onp.int64(c.output.seq[k]))
        if len(V) > 6:
            break
    return V


def compare_traces(atrace, ctrace, expected_keys, stats):
    """host-trace comparison (independent of rex's own recording): same (idx, seq) -> same vector except eps."""
    V = []
    A = {(d["idx"], d["seq"]): d for d in atrace}
    C = {(d["idx"], d["seq"]): d for d in ctrace}
    for k in expected_keys:
        if k not in C:
            V.append(dict(clause="trace_missing_in_compiled", key=k))
            continue
        if k not in A:
            continue  # overridden / not traced on the async side
        a, c = dict(A[k]), dict(C[k])
        a.pop("eps"), c.pop("eps")
        for d in (a, c):
            for rows in d["inputs"].values():
                for r in rows:
                    if r["seq"] < 0:
                        r["seq"], r["ts_sent"], r["ts_recv"] = -1, 0.0, 0.0
                    r["ts_sent"] = 0.0 if r["ts_sent"] == 0 else r["ts_sent"]
                    r["ts_recv"] = 0.0 if r["ts_recv"] == 0 else r["ts_recv"]
            d["ts"] = 0.0 if d["ts"] == 0 else d["ts"]
        stats["trace_steps_compared"] += 1
        if a != c:
            V.append(dict(clause="trace_differs", key=k, fields=[f for f in a if a[f] != c[f]], async_={f: a[f] for f in a if f != "inputs" and a[f] != c[f]},
                          compiled={f: c[f] for f in c if f != "inputs" and a[f] != c[f]}))
            if len(V) > 4:
                break
    return V


def gen_spec(case):
    from rexmon import specs as S

    rnd = random.Random(case["spec_seed"] + 1)
    spec = S.rand_spec(case["spec_seed"], zero_bias=0.1, n_min=3, n_max=4 if case.get("small") else 5)
    if rnd.random() < 0.25:
        sup_rate = [n for n in spec["nodes"] if n["name"] == spec["supervisor"]][0]["rate"]
        cands = [n for n in spec["nodes"] if n["name"] != spec["supervisor"]]
        fast = rnd.choice(cands)
        for n in spec["nodes"]:
            if n["name"] == spec["supervisor"]:
                n["rate"] = rnd.choice([5, 8])
                sup_rate = n["rate"]
        fast["rate"] = sup_rate * rnd.choice([11, 12, 13])
        fast["delay"] = ["det", round(0.3 / fast["rate"], 5)]
        spec["fast_ratio"] = True
    return spec


def run_case(case):
    import jax

    from rexmon import drive_async as D
    from rexmon import drive_comp as C
    from rexmon import specs as S
    from rexmon import witness as W

    rnd = random.Random(case["spec_seed"])
    spec = gen_spec(case)
    dg = S.digest(spec)
    items, counters, samples = [], Counter(), []
    n_eps = rnd.choice([2, 3])
    base_len = case.get("steps", 8)
    lengths = [base_len + rnd.randint(0, 5) for _ in range(n_eps)]
    drive = [rnd.choice(["run", "step"]) for _ in range(n_eps)]
    mon = D.Monitor(seed=case["spec_seed"], p_sleep=0.15, max_sleep=0.002).install()
    try:
        ex = C.record_experiment(spec, lengths=lengths, init_seed=case["spec_seed"], mode=drive, trace="io", max_records=600)
    except (C.Rejected, ValueError, NotImplementedError) as e:
        return dict(items=[dict(status="rejected", key=dg, nontrivial=False, note=f"{type(e).__name__}: {e}"[:140])], counters={"rejected_record": 1})
    except D.Stall as e:
        return dict(items=[dict(status="inconclusive", key=dg, nontrivial=False, note=f"async stall (G_live={S.in_live(spec)})")], counters={"stalls": 1})
    D.Monitor.uninstall()
    nodes, sup, gs0 = ex["nodes"], ex["sup"], ex["gs0"]
    _, cg = C.experiment_graph(ex["episodes"])
    name2idx = {k: n.idx for k, n in nodes.items()}
    pairs = rnd.sample([(m, p) for m in ("mcs", "gen", "top") for p in (True, False)], 2)
    if spec.get("fast_ratio"):
        pairs[0] = (rnd.choice(["gen", "top"]), pairs[0][1])
    for mode, prune in pairs:
        kw = {}
        if rnd.random() < 0.4:
            kw["extra_padding"] = rnd.randint(1, 3)  # replay must not depend on the (admissible) buffer configuration
        try:
            G = C.build_compiled(nodes, sup, cg, mode=mode, prune=prune, **kw)
            if rnd.random() < 0.3:
                sizes = {k: int(max(v) + rnd.randint(0, 2)) for k, v in G._buffer_sizes.items() if len(v)}
                G = C.build_compiled(nodes, sup, cg, mode=mode, prune=prune, buffer_sizes=sizes, **kw)
                kw["buffer_sizes"] = sizes
        except C.Rejected as e:
            items.append(dict(status="rejected", key=f"{dg}/{mode}/{prune}", nontrivial=False, note=str(e)[:120]))
            counters["rejected_graph"] += 1
            continue
        sched, n_part = C.schedule(G)
        N = G.max_steps
        if any(n not in {r["kind"] for rows in sched for r in rows} for n in nodes):
            items.append(dict(status="rejected", key=f"{dg}/{mode}/{prune}", nontrivial=False, note="a node has no slot in the schedule (init_record refuses, DESIGN 5.3)"))
            counters["rejected_unscheduled_node"] += 1
            continue
        roll = jax.jit(G.rollout)
        for e in range(n_eps):
            c0 = C.compiled_init(G, gs0, eps=e)
            c1 = G.init_record(c0, params=True, rng=True, inputs=True, state=True, output=True)
            W.trace_clear()
            use_step = rnd.random() < 0.3
            if use_step:
                gs, ss = jax.jit(G.reset)(c1)
                step_j = jax.jit(G.step)
                for i in range(N):
                    gs, ss = step_j(gs)
                out = gs
                n_sup = N  # reset + N steps: partitions 0..N, supervisor ticks 0..N-1
                parts_run = N + 1
            else:
                out = roll(c1)
                parts_run = N
            jax.block_until_ready(out)
            jax.effects_barrier()
            crec = C.npz(out.aux["record"])
            ctrace = W.decode_trace(W.trace_snapshot(), S.input_layout(nodes))
            arec = ex["episodes"][e]["record"]
            stats = Counter()
            rows = [r for r in sched[e] if r["partition"] < min(parts_run, n_part) and not (r["kind"] == sup.name and r["seq"] >= N)]
            V = compare_rows(arec, crec, rows, parts_run, sup.name, stats)
            exp_keys = [(name2idx[r["kind"]], r["seq"]) for r in rows if not (r["kind"] == sup.name and r["seq"] >= N)]
            V += compare_traces(ex["episodes"][e]["trace"], ctrace, exp_keys, stats)
            counters.update(stats)
            nontriv = len(nodes) >= 3 and any(c["window"] > 1 for c in spec["conns"]) and stats["steps_compared"] >= 30
            key = f"{dg}/{mode}/{prune}/{e}"
            if V:
                items.append(dict(status="violated", key=key, nontrivial=nontriv,
                                  witness=dict(mechanism=V[0]["clause"], violations=V[:4], spec=spec, mode=mode, prune=prune, episode=e, lengths=lengths,
                                               drive=drive, compiled_drive="reset/step" if use_step else "rollout", features=S.features(spec), graph_kwargs=kw)))
            else:
                items.append(dict(status="held", key=key, nontrivial=nontriv))
        samples.append(dict(spec_digest=dg, features=S.features(spec), lengths=lengths, async_drive=drive, mode=mode, prune=prune, partitions=n_part,
                            slots=len(G.timings.slots), fast_ratio=bool(spec.get("fast_ratio"))))
    return dict(items=items, counters=dict(counters), samples=samples[:1])


def plan(tier, seed):
    n = 20 if tier == "quick" else 250
    return [dict(name=f"x-{i}", spec_seed=seed * 100103 + i, steps=7 if tier == "quick" else 12, small=(tier == "quick"), timeout=600) for i in range(n)]
