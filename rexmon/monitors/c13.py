"""C13 — recording is faithful and never changes the execution (record vs independent host trace; recording on/off/truncated)."""
import random
from collections import Counter

import numpy as onp

RULE_LATER = " Built later: the record header (params present iff requested and equal to the params the steps of that episode used), over three more episodes with different params on the same object."
RULE = ("async: G_live witness graphs run once per record-setting class (all fields, none, single fields, per-node dicts, max_records 0/3/large) "
        "from the same initial state under perturbed schedules; every recorded row is compared with the witness host trace entry of the same "
        "(node, seq) (seq, ts, rng, state before, windows incl. payload, output), the state chain is checked, truncated records must hold "
        "exactly the first m rows and only messages consumed by recorded steps, and supervisor observations + host trace must be identical "
        "across all settings; compiled: recorded/generated graphs, all supergraph modes, rollout with every flag set (incl. output-only and "
        "supervisor-only dicts) vs no recording: final GraphState identical, executed rows equal the host trace, unexecuted rows stay -1; one "
        "evaluation = one (graph, record setting) run; non-trivial = setting that records at least one optional field or truncates; distinct "
        "by spec digest x setting")
RULE += " Built later: async episodes of different length per setting with message/window consistency; a wall-clock case in which one node's step moves its own ts forward; compiled late starts, reset/step with user-overridden supervisor steps, extra user entries in graph_state.aux."
RULE += RULE_LATER
MIN_NONTRIVIAL = {"quick": 24, "thorough": 300}
DECIDING = ["rows_vs_trace", "runs_compared"]
ASSUMPTIONS = ["the host trace (ordered io_callback inside the witness step) is independent of rex's recording", "async runs are comparable across settings "
               "because simulated-clock episodes are schedule independent (C02)"]
LEVEL = "exploration"
WORKERS = 12

SETTINGS = [
    ("all", dict(params=True, rng=True, inputs=True, state=True, output=True), None),
    ("none", dict(params=False, rng=False, inputs=False, state=False, output=False), None),
    ("rng", dict(params=False, rng=True, inputs=False, state=False, output=False), None),
    ("inputs", dict(params=False, rng=False, inputs=True, state=False, output=False), None),
    ("state", dict(params=False, rng=False, inputs=False, state=True, output=False), None),
    ("output", dict(params=False, rng=False, inputs=False, state=False, output=True), None),
    ("all-max3", dict(params=True, rng=True, inputs=True, state=True, output=True), 3),
    ("all-max4", dict(params=True, rng=True, inputs=True, state=True, output=True), 4),
    ("state-max0", dict(params=False, rng=False, inputs=False, state=True, output=False), 0),
]


def f32(x):
    a = onp.asarray(x, dtype=onp.float32)
    return onp.where(a == 0, onp.float32(0), a)


def rows_vs_trace(rec, trace_by_key, nodes, flags, stats, executed_only=None, sup_name=None, n_sup_exec=None):
    """Compare every recorded row with the witness host trace. flags: {node: dict(rng, inputs, state, output)}."""
    V = []
    for n, nr in rec.nodes.items():
        st = nr.steps
        K = len(st.seq)
        fl = flags[n]
        idx = nodes[n].idx
        for k in range(K):
            if int(st.seq[k]) < 0:
                if executed_only is not None and (n, k) in executed_only:
                    V.append(dict(clause="executed_row_not_written", node=n, row=k))
                continue
            if int(st.seq[k]) != k:
                V.append(dict(clause="row_seq_not_its_index", node=n, row=k, seq=int(st.seq[k])))
                continue
            if executed_only is not None and (n, k) not in executed_only:
                V.append(dict(clause="unexecuted_row_touched", node=n, row=k))
                continue
            t = trace_by_key.get((idx, k))
            if t is None:
                continue  # supervisor ticks overridden / skipped are not traced
            stats["rows_vs_trace"] += 1

            def diff(field, a, b):
                if a != b:
                    V.append(dict(clause="record_differs_from_what_the_step_used", node=n, seq=k, field=field, recorded=a, used=b))

            diff("ts_start", float(f32(st.ts_start[k])), float(f32(t["ts"])))
            if fl["rng"] and st.rng is not None:
                diff("rng", [int(x) for x in onp.asarray(st.rng[k]).astype(onp.uint32)], [t["rng0"], t["rng1"]])
            if fl["state"] and st.state is not None:
                diff("state.h", int(onp.uint32(st.state.h[k])), t["st_h"])
                diff("state.cnt", int(st.state.cnt[k]), t["st_cnt"])
            if fl["output"] and st.output is not None and k < len(st.output.h):
                if not (n == sup_name and n_sup_exec is not None and k >= n_sup_exec):
                    diff("output.h", int(onp.uint32(st.output.h[k])), t["out_h"])
                    diff("output.seq", int(st.output.seq[k]), k)
            if fl["inputs"] and st.inputs is not None:
                for key, iw in st.inputs.items():
                    rows = t["inputs"][key]
                    diff(f"inputs[{key}].seq", [int(x) if x >= 0 else -1 for x in onp.asarray(iw.seq[k])], [r["seq"] if r["seq"] >= 0 else -1 for r in rows])
                    diff(f"inputs[{key}].data.h", [int(onp.uint32(x)) for x in onp.asarray(iw.data.h[k])], [r["d_h"] for r in rows])
                    diff(f"inputs[{key}].data.seq", [int(x) for x in onp.asarray(iw.data.seq[k])], [r["d_seq"] for r in rows])
                    diff(f"inputs[{key}].data.vec", onp.asarray(iw.data.vec[k]).astype(onp.int64).tolist(), [r["d_vec"] for r in rows])
                    real = [r["seq"] >= 0 for r in rows]
                    diff(f"inputs[{key}].ts_recv", [float(x) for x, m in zip(f32(iw.ts_recv[k]), real) if m], [float(f32(r["ts_recv"])) for r, m in zip(rows, real) if m])
                    diff(f"inputs[{key}].ts_sent", [float(x) for x, m in zip(f32(iw.ts_sent[k]), real) if m], [float(f32(r["ts_sent"])) for r, m in zip(rows, real) if m])
            # state chain: the state recorded before step k+1 is the state returned by step k (witness: new state hash == output hash)
            if fl["state"] and st.state is not None and k + 1 < K and int(st.seq[k + 1]) == k + 1 and (idx, k) in trace_by_key:
                stats["state_chain_checked"] += 1
                if int(onp.uint32(st.state.h[k + 1])) != t["out_h"] and not (n == sup_name):
                    V.append(dict(clause="state_chain_broken", node=n, seq=k, recorded_next_state=int(onp.uint32(st.state.h[k + 1])), returned_by_step=t["out_h"]))
            if len(V) > 5:
                return V
    return V


def run_async(case):
    from rexmon import drive_async as D
    from rexmon import specs as S
    from rexmon.monitors import c02

    rnd = random.Random(case["spec_seed"])
    spec = S.rand_live(case["spec_seed"], n_min=2, n_max=4)
    dg = S.digest(spec)
    n_steps = case.get("steps", 9)
    items, counters, samples = [], Counter(), []
    g, nodes, sup, gs0 = D.build_graph(spec, clock="sim", rtf=0, max_records=400, init_seed=case["spec_seed"])
    settings = list(SETTINGS)
    # per-node dict: record everything on one node only
    one = rnd.choice(list(nodes))
    settings.append((f"dict-only-{one}", {f: {k: (k == one) for k in nodes} for f in ("params", "rng", "inputs", "state", "output")}, None))
    rnd.shuffle(settings)
    settings = [s for s in SETTINGS[:1]] + [s for s in settings if s[0] != "all"][: case.get("n_settings", 5)] + [SETTINGS[0]]
    base = None
    api = rnd.choice(["run", "step"])
    for si_, (name, rec, maxrec) in enumerate(settings):
        n_run = n_steps + 2 * (si_ % 3)  # episodes of different length on the same object (stale per-episode record state would show)
        g.set_record_settings(max_records=400 if maxrec is None else maxrec, **rec)
        mon = D.Monitor(seed=case["spec_seed"] + len(name), p_sleep=0.15, max_sleep=0.002).install()
        try:
            r = D.call_with_deadline(D.run_episode, 90, g, nodes, sup, gs0, api, n_run, 21, None, 0.03, True, False)
        except D.Stall as e:
            items.append(dict(status="inconclusive", key=f"{dg}/{name}", nontrivial=False, note=f"stall: {e}"))
            break
        import jax

        jax.effects_barrier()
        from rexmon import witness as W

        trace = W.decode_trace(W.trace_snapshot(), S.input_layout(nodes))
        tb = {(d["idx"], d["seq"]): d for d in trace}
        V = []
        rec_np = None
        try:
            rec_np = D.npz(g.get_record())
        except (TypeError, IndexError) as e:
            if maxrec != 0:
                items.append(dict(status="rejected", key=f"{dg}/{name}", nontrivial=False, note=f"empty record: {e}"[:100]))
                continue
        flags = {}
        for n in nodes:
            flags[n] = {f: (rec[f][n] if isinstance(rec[f], dict) else rec[f]) for f in ("rng", "inputs", "state", "output")}
        stats = Counter()
        if rec_np is not None:
            V += rows_vs_trace(rec_np, tb, nodes, flags, stats, sup_name=sup.name, n_sup_exec=n_run)
            if name == "all":
                # the message records must be those of THIS episode: consistent with the windows the recorded steps saw
                from rexmon.monitors import c03

                vv = c03.check_record(rec_np, nodes, {}, wall_clock=False, own_nonce=21)
                V += [dict(clause="record_inconsistent_" + x["clause"], detail={k_: v_ for k_, v_ in x.items() if k_ != "clause"}) for x in vv[:2]]
            for n, nr in rec_np.nodes.items():
                K = len(nr.steps.seq)
                # optional fields are present iff requested
                for f in ("rng", "inputs", "state", "output"):
                    present = getattr(nr.steps, f) is not None
                    if present != bool(flags[n][f]) and K > 0:
                        V.append(dict(clause="field_presence_not_as_requested", node=n, field=f, present=present, requested=bool(flags[n][f])))
                # the record header: params present iff requested, and they are the params the steps of THIS episode used
                want_p = rec["params"][n] if isinstance(rec["params"], dict) else rec["params"]
                if (nr.params is not None) != bool(want_p):
                    V.append(dict(clause="field_presence_not_as_requested", node=n, field="params", present=nr.params is not None, requested=bool(want_p)))
                elif nr.params is not None:
                    stats["header_params_checked"] += 1
                    used = {d["nonce"] for (i, s), d in tb.items() if i == nodes[n].idx}
                    got = int(onp.asarray(nr.params.nonce))
                    if used and used != {got}:
                        V.append(dict(clause="record_params_not_the_params_the_steps_used", node=n, recorded=got, used=sorted(used)[:3]))
                if maxrec is not None:
                    executed = sum(1 for (i, s) in tb if i == nodes[n].idx)
                    want = min(maxrec, max(executed, K))
                    if K > maxrec or not onp.array_equal(onp.asarray(nr.steps.seq), onp.arange(K)):
                        V.append(dict(clause="truncation_not_first_m_rows", node=n, rows=K, max_records=maxrec, seq=onp.asarray(nr.steps.seq)[:8].tolist()))
                for m, ir in nr.inputs.items():
                    si = onp.asarray(ir.messages.seq_in)
                    if len(si) and (si >= K).any():
                        V.append(dict(clause="message_recorded_for_unrecorded_step", conn=f"{m}->{n}", rows=K, seq_in_max=int(si.max()), max_records=maxrec))
        counters.update(stats)
        cur = dict(obs=r["obs"], trace=tb)
        if base is None:
            base = cur
        else:
            counters["runs_compared"] += 1
            st2 = Counter()
            V += c02.compare_obs(base["obs"], cur["obs"], st2)
            common = set(base["trace"]) & set(cur["trace"])
            for k in sorted(common):
                a, b = dict(base["trace"][k]), dict(cur["trace"][k])
                if a != b:
                    V.append(dict(clause="recording_setting_changed_execution", key=k, fields=[f for f in a if a[f] != b[f]], setting=name))
                    break
            counters["trace_steps_compared"] += len(common)
        if mon.errors:
            V.append(dict(clause="worker_exception", errors=mon.errors[:2]))
        nontriv = any(v is True or isinstance(v, dict) for v in rec.values()) or maxrec is not None
        key = f"{dg}/{name}"
        if V:
            items.append(dict(status="violated", key=key, nontrivial=nontriv, witness=dict(mechanism=V[0]["clause"], violations=V[:4], setting=name, max_records=maxrec, spec=spec, api=api)))
        else:
            items.append(dict(status="held", key=key, nontrivial=nontriv))
    # record header across episodes with DIFFERENT params on the same object: recorded, switched off, switched on again
    allf = {f: True for f in ("params", "rng", "inputs", "state", "output")}
    for nn, recset in ((31, allf), (32, dict(allf, params=False)), (33, allf)):
        g.set_record_settings(max_records=400, **recset)
        try:
            D.call_with_deadline(D.run_episode, 90, g, nodes, sup, gs0, api, 5, nn, None, 0.03, True, False)
            rec_np = D.npz(g.get_record())
        except (D.Stall, TypeError, IndexError) as e:
            items.append(dict(status="rejected", key=f"{dg}/header-{nn}", nontrivial=False, note=f"no record: {e}"[:100]))
            break
        V = []
        for n, nr in rec_np.nodes.items():
            if recset["params"]:
                counters["header_params_checked"] += 1
                got = None if nr.params is None else int(onp.asarray(nr.params.nonce))
                if got != nn:
                    V.append(dict(clause="record_params_not_the_params_the_steps_used", node=n, recorded=got, used=[nn], episode_params_differ_from_previous=True))
            elif nr.params is not None:
                V.append(dict(clause="field_presence_not_as_requested", node=n, field="params", present=True, requested=False))
        key = f"{dg}/header-{nn}"
        if V:
            items.append(dict(status="violated", key=key, nontrivial=True, witness=dict(mechanism=V[0]["clause"], violations=V[:4], setting=f"header-{nn}", spec=spec, api=api)))
        else:
            items.append(dict(status="held", key=key, nontrivial=True))
    samples.append(dict(kind="async", spec_digest=dg, api=api, settings=[s[0] for s in settings], features=S.features(spec)))
    return dict(items=items, counters=dict(counters), samples=samples)


def run_wall(case):
    """wall clock: a step that moves its own ts forward is recorded with THAT start time (ts_start + delay == ts_end)"""
    import jax

    from rexmon import drive_async as D
    from rexmon import specs as S
    from rexmon import witness as W

    rnd = random.Random(case["spec_seed"])
    spec = S.rand_live(case["spec_seed"], n_min=2, n_max=3, overrun=False)
    for n in spec["nodes"]:
        n["rate"] = max(n["rate"], 13)
    dg = S.digest(spec)
    g, nodes, sup, gs0 = D.build_graph(spec, clock="wall", rtf=0, max_records=200, init_seed=case["spec_seed"])
    shifted = rnd.choice([n for n in nodes if n != sup.name])
    shift = 0.003
    # the AOT-compiled step of that node must contain the shift: rebuild the graph with the attribute set before warmup
    nodes2, sup2 = S.build(spec, trace="io")
    nodes2[shifted].ts_shift = shift
    import rex.constants as const
    from rex.asynchronous import AsyncGraph

    g = AsyncGraph(nodes2, sup2, clock=const.Clock.WALL_CLOCK, real_time_factor=const.RealTimeFactor.REAL_TIME)
    g.set_record_settings(params=True, rng=True, inputs=True, state=True, output=True, max_records=200)
    gs0 = g.init(jax.random.PRNGKey(case["spec_seed"]))
    g.warmup(gs0)
    V, counters = [], Counter()
    try:
        def _ep():
            import time

            W.trace_clear()
            gs = D.with_nonce(gs0, nodes2, 3)
            t0 = time.time()
            while time.time() - t0 < 0.5:
                gs = g.run(gs)
            g.stop()
            jax.effects_barrier()
            return D.npz(g.get_record()), W.decode_trace(W.trace_snapshot(), S.input_layout(nodes2))
        rec, trace = D.call_with_deadline(_ep, 60)
    except (D.Stall, TypeError) as e:
        return dict(items=[dict(status="rejected", key=dg, nontrivial=False, note=str(e)[:100])], counters={})
    tb = {(d["idx"], d["seq"]): d for d in trace}
    for n, nr in rec.nodes.items():
        st = nr.steps
        K = len(st.seq)
        bad = onp.abs(onp.asarray(st.ts_start, float) + onp.asarray(st.delay, float) - onp.asarray(st.ts_end, float)) > 1e-6
        counters["wall_rows_checked"] += K
        if bad.any():
            k = int(onp.argmax(bad))
            V.append(dict(clause="recorded_ts_start_plus_delay_not_ts_end", node=n, k=k, ts_start=float(st.ts_start[k]), delay=float(st.delay[k]), ts_end=float(st.ts_end[k]), shifted_node=shifted))
        if n == shifted:
            for k in range(K):
                t = tb.get((nodes2[n].idx, k))
                if t is not None and abs(float(st.ts_start[k]) - (t["ts"] + shift)) > 2e-4:
                    V.append(dict(clause="recorded_ts_start_not_the_start_time_the_step_returned", node=n, k=k, recorded=float(st.ts_start[k]), seen=t["ts"], returned=t["ts"] + shift))
                    break
    item = dict(status="violated", key=f"{dg}/wall-ts-shift", nontrivial=True, witness=dict(mechanism=V[0]["clause"], violations=V[:3], spec=spec)) if V else dict(status="held", key=f"{dg}/wall-ts-shift", nontrivial=True)
    return dict(items=[item], counters=dict(counters), samples=[dict(kind="wall", spec_digest=dg, shifted_node=shifted, shift=shift)])


def run_comp(case):
    import jax

    from rexmon import drive_comp as C
    from rexmon import specs as S
    from rexmon import witness as W
    from rexmon.monitors import c09

    rnd = random.Random(case["spec_seed"])
    items, counters, samples = [], Counter(), []
    gs0 = None
    if case["kind"] == "comp-rec":
        spec = S.rand_live(case["spec_seed"], n_min=2, n_max=4)
        try:
            ex = C.record_experiment(spec, lengths=[rnd.randint(5, 8), rnd.randint(8, 11)], init_seed=case["spec_seed"], trace="io", max_records=600)
        except (C.Rejected, C.D.Stall) as e:
            return dict(items=[dict(status="rejected", key=S.digest(spec), nontrivial=False, note=str(e)[:120])], counters={"rejected_record": 1})
        C.D.Monitor.uninstall()
        nodes, sup, gs0 = ex["nodes"], ex["sup"], ex["gs0"]
        _, cg = C.experiment_graph(ex["episodes"])
    else:
        spec = S.rand_gen(case["spec_seed"], n_min=2, n_max=4)
        nodes, sup, cg = C.generated_graph(spec, ts_max=rnd.choice([0.6, 1.0]), num_episodes=2, seed=case["spec_seed"])
    dg = S.digest(spec)
    mode = case.get("mode") or rnd.choice(["mcs", "gen", "top"])
    try:
        G = C.build_compiled(nodes, sup, cg, mode=mode, prune=rnd.random() < 0.5)
    except C.Rejected as e:
        return dict(items=[dict(status="rejected", key=dg, nontrivial=False, note=str(e)[:120])], counters={"rejected_graph": 1})
    sched, n_part = C.schedule(G)
    kinds = {r["kind"] for rows in sched for r in rows}
    if any(n not in kinds for n in nodes):
        return dict(items=[dict(status="rejected", key=dg, nontrivial=False, note="a node has no slot in the schedule (init_record refuses)")], counters={"rejected_unscheduled_node": 1})
    e = rnd.randrange(G.max_eps)
    c0 = G.init(jax.random.PRNGKey(case["spec_seed"]), starting_eps=e)
    if gs0 is not None:
        c0 = c0.replace(rng=gs0.rng, params=gs0.params, state=gs0.state)
    N = G.max_steps
    roll = jax.jit(G.rollout)
    W.trace_clear()
    o0 = roll(c0)
    jax.block_until_ready(o0)
    jax.effects_barrier()
    base_trace = {(d["idx"], d["seq"]): d for d in W.decode_trace(W.trace_snapshot(), S.input_layout(nodes))}
    one = rnd.choice(list(nodes))
    flagsets = [
        ("all", {f: True for f in ("params", "rng", "inputs", "state", "output")}),
        ("output", dict(params=False, rng=False, inputs=False, state=False, output=True)),
        ("state", dict(params=False, rng=False, inputs=False, state=True, output=False)),
        ("inputs+rng", dict(params=False, rng=True, inputs=True, state=False, output=False)),
        (f"dict-only-{sup.name}", {f: {k: (k == sup.name) for k in nodes} for f in ("params", "rng", "inputs", "state", "output")}),
        (f"dict-only-{one}", {f: {k: (k == one) for k in nodes} for f in ("params", "rng", "inputs", "state", "output")}),
        ("nothing", dict(params=False, rng=False, inputs=False, state=False, output=False)),
    ]
    executed = {(r["kind"], r["seq"]) for r in sched[e] if r["partition"] < N and not (r["kind"] == sup.name and r["seq"] >= N)}
    executed_rows = executed | {(sup.name, k) for k in range(N)}
    # one extra configuration with a late start: rows of partitions before the start must stay -1
    if N >= 3:
        s0 = rnd.randint(1, N - 1)
        flagsets.append((f"all-late-start-{s0}", {f: True for f in ("params", "rng", "inputs", "state", "output")}))
    for name, fl in flagsets:
        late = name.startswith("all-late-start")
        if late:
            c0_run = G.init(jax.random.PRNGKey(case["spec_seed"]), starting_eps=e, starting_step=s0)
            if gs0 is not None:
                c0_run = c0_run.replace(rng=gs0.rng, params=gs0.params, state=gs0.state)
            roll_l = jax.jit(lambda g: G.rollout(g, max_steps=N - s0))
            W.trace_clear()
            o0_l = roll_l(c0_run)
            jax.block_until_ready(o0_l)
            jax.effects_barrier()
            base_l = {(d["idx"], d["seq"]): d for d in W.decode_trace(W.trace_snapshot(), S.input_layout(nodes))}
            ex_l = {(r["kind"], r["seq"]) for r in sched[e] if s0 <= r["partition"] < N and not (r["kind"] == sup.name and r["seq"] >= N)} | {(sup.name, k) for k in range(s0, N)}
            try:
                c1 = G.init_record(c0_run, **fl)
            except KeyError as ex_:
                continue
            W.trace_clear()
            o1 = roll_l(c1)
            jax.block_until_ready(o1)
            jax.effects_barrier()
            tr = {(d["idx"], d["seq"]): d for d in W.decode_trace(W.trace_snapshot(), S.input_layout(nodes))}
            V = []
            st = Counter()
            d = c09.tree_diff(o0_l.replace(aux=None), o1.replace(aux=None), st)
            counters["runs_compared"] += 1
            if d:
                V.append(dict(clause="recording_changed_final_graph_state", diffs=d, flags=name))
            if tr != base_l:
                V.append(dict(clause="recording_changed_what_steps_saw", flags=name))
            rec = C.npz(o1.aux["record"])
            flags = {n: {f: True for f in ("rng", "inputs", "state", "output")} for n in nodes}
            stats = Counter()
            V += rows_vs_trace(rec, tr, nodes, flags, stats, executed_only=ex_l, sup_name=sup.name, n_sup_exec=N)
            counters.update(stats)
            key = f"{dg}/{mode}/{name}"
            if V:
                items.append(dict(status="violated", key=key, nontrivial=True, witness=dict(mechanism=V[0]["clause"], violations=V[:4], flags=name, spec=spec, mode=mode, episode=e, starting_step=s0)))
            else:
                items.append(dict(status="held", key=key, nontrivial=True))
            continue
        try:
            c1 = G.init_record(c0, **fl)
        except KeyError as ex_:
            items.append(dict(status="rejected", key=f"{dg}/{mode}/{name}", nontrivial=False, note=f"init_record KeyError {ex_}"))
            continue
        W.trace_clear()
        o1 = roll(c1)
        jax.block_until_ready(o1)
        jax.effects_barrier()
        tr = {(d["idx"], d["seq"]): d for d in W.decode_trace(W.trace_snapshot(), S.input_layout(nodes))}
        V = []
        st = Counter()
        d = c09.tree_diff(o0.replace(aux=None), o1.replace(aux=None), st)
        counters["runs_compared"] += 1
        if d:
            V.append(dict(clause="recording_changed_final_graph_state", diffs=d, flags=name))
        if tr != base_trace:
            ks = [k for k in base_trace if tr.get(k) != base_trace[k]][:3]
            V.append(dict(clause="recording_changed_what_steps_saw", keys=ks, flags=name))
        rec = C.npz(o1.aux["record"])
        flags = {n: {f: (fl[f][n] if isinstance(fl[f], dict) else fl[f]) for f in ("rng", "inputs", "state", "output")} for n in nodes}
        stats = Counter()
        V += rows_vs_trace(rec, tr, nodes, flags, stats, executed_only=executed_rows, sup_name=sup.name, n_sup_exec=N)
        counters.update(stats)
        nontriv = name != "nothing"
        key = f"{dg}/{mode}/{name}"
        if V:
            items.append(dict(status="violated", key=key, nontrivial=nontriv, witness=dict(mechanism=V[0]["clause"], violations=V[:4], flags=name, spec=spec, mode=mode, episode=e)))
        else:
            items.append(dict(status="held", key=key, nontrivial=nontriv))
    # ---- reset/step driving with user-overridden supervisor steps while recording: the recorded output of an overridden step is the output passed in
    try:
        import jax.numpy as jnp

        c1 = G.init_record(c0.replace_aux({"user_counter": jnp.int32(7), "user_note": jnp.float32(0.25)}), params=True, rng=True, inputs=True, state=True, output=True)
        W.trace_clear()
        gs, ss = jax.jit(G.reset)(c1)
        aux_keys_after_reset = sorted(gs.aux.keys())
        step_j = jax.jit(G.step)
        sent = {}
        kmax = min(N - 1, 6)
        for i in range(kmax):
            if rnd.random() < 0.5:
                tr_ = sup.trace
                sup.trace = "none"
                try:
                    new_ss, out = sup.step(ss)
                finally:
                    sup.trace = tr_
                sent[int(onp.asarray(ss.seq))] = int(onp.uint32(out.h))
                gs, ss = G.step(gs, new_ss, out)
            else:
                gs, ss = step_j(gs)
        jax.block_until_ready(gs)
        jax.effects_barrier()
        tr = {(d["idx"], d["seq"]): d for d in W.decode_trace(W.trace_snapshot(), S.input_layout(nodes))}
        rec = C.npz(gs.aux["record"])
        V = []
        if sorted(gs.aux.keys()) != ["record", "user_counter", "user_note"] or aux_keys_after_reset != ["record", "user_counter", "user_note"] or int(gs.aux["user_counter"]) != 7:
            V.append(dict(clause="recording_dropped_other_aux_entries", aux_keys=sorted(gs.aux.keys()), after_reset=aux_keys_after_reset))
        so = rec.nodes[sup.name].steps.output
        for k_, h_ in sent.items():
            counters["overridden_outputs_checked"] += 1
            if int(onp.uint32(so.h[k_])) != h_ or int(so.seq[k_]) != k_:
                V.append(dict(clause="overridden_step_output_not_recorded", step=k_, recorded_h=int(onp.uint32(so.h[k_])), sent_h=h_, recorded_seq=int(so.seq[k_])))
        ex_rows = {(r["kind"], r["seq"]) for r in sched[e] if r["partition"] <= kmax and not (r["kind"] == sup.name and r["seq"] > kmax)} | {(sup.name, k_) for k_ in range(kmax + 1)}
        flags = {n: {f: True for f in ("rng", "inputs", "state", "output")} for n in nodes}
        stats = Counter()
        V += rows_vs_trace(rec, tr, nodes, flags, stats, executed_only=ex_rows, sup_name=sup.name, n_sup_exec=kmax)
        counters.update(stats)
        key = f"{dg}/{mode}/step-override"
        if V:
            items.append(dict(status="violated", key=key, nontrivial=True, witness=dict(mechanism=V[0]["clause"], violations=V[:4], spec=spec, mode=mode, episode=e, overridden=sorted(sent))))
        else:
            items.append(dict(status="held", key=key, nontrivial=bool(sent)))
    except KeyError:
        pass
    samples.append(dict(kind=case["kind"], spec_digest=dg, mode=mode, flagsets=[f[0] for f in flagsets], episode=e, partitions=n_part))
    return dict(items=items, counters=dict(counters), samples=samples)


def plan(tier, seed):
    na, ng, nr = (12, 6, 4) if tier == "quick" else (150, 50, 40)
    modes = ["mcs", "gen", "top"]
    cases = [dict(name=f"async-{i}", kind="async", spec_seed=seed * 100189 + i, timeout=420) for i in range(na)]
    cases += [dict(name=f"gen-{i}", kind="comp-gen", spec_seed=seed * 100189 + 2000 + i, mode=modes[i % 3], timeout=900) for i in range(ng)]
    cases += [dict(name=f"wall-{i}", kind="wall", spec_seed=seed * 100189 + 6000 + i, timeout=300) for i in range(3 if tier == "quick" else 30)]
    cases += [dict(name=f"rec-{i}", kind="comp-rec", spec_seed=seed * 100189 + 4000 + i, mode=modes[i % 3], timeout=900) for i in range(nr)]
    return cases


def run_case(case):
    if case["kind"] == "wall":
        return run_wall(case)
    return run_async(case) if case["kind"] == "async" else run_comp(case)
