"""C15 — delay distributions: non-negative replayable samples, true quantiles; estimator returns proper distributions."""
import math
import random
from collections import Counter

import numpy as onp

RULE = ("per case a sequence of generated distributions is evaluated in ONE process (so that state leaking between calls is visible): "
        "Deterministic, Normal (incl. sigma=0 and means near 0), mixtures of 2-4 normals each followed by 'sibling' mixtures with the same "
        "components and different weights, TrainableDist; checked: samples >= 0 for scalar/vector/matrix shapes, sampling leaves the receiver "
        "unchanged and returns a new rng state, reset(k) replays identical samples (eager and sample_pure under jit), quantile monotone on a grid, "
        "Deterministic == loc, Normal vs scipy ndtr within 1e-5, mixture cdf(quantile(q)) within the grid-resolution bound, node/connection "
        "default delay == quantile(0.99) >= 0; estimator: weights sum to 1, scales > 0, means inside the data scale, rescaling the data by c "
        "rescales means/scales by c, constant data of size n in {1,2,20,100} and magnitudes from 0 to 2000 -> Deterministic(mean); one evaluation = one distribution or one "
        "estimator data set; non-trivial = stochastic distribution (sigma > 0) or non-constant data; distinct by parameter digest")
RULE += ' Built later: deterministic quantiles at levels 0/1 and array levels; extreme mixture levels must be refused or stay consistent; out-of-range requested trainable delays saturate; constant data of magnitude up to 2000; estimator pruning percentiles.'
MIN_NONTRIVIAL = {"quick": 150, "thorough": 4000}
DECIDING = ["samples_checked", "quantiles_checked"]
ASSUMPTIONS = ["scipy.stats.norm in float64 is the reference CDF", "mixture quantiles are queried with scalar q in [0.005, 0.995] (the way rex calls them); "
               "'Grid does not span full CDF range' and array-q ValueErrors are explicit refusals and counted as rejected"]
LEVEL = "exploration"
WORKERS = 14


def mix_cdf(x, w, loc, scale):
    from scipy.stats import norm

    return sum(w[j] * norm.cdf(x, loc[j], scale[j]) for j in range(len(w)))


def check_dist(d, ref, stats, rnd, key_seed):
    """d: rex DelayDistribution. ref: dict(kind, params). Returns list of violations."""
    import jax
    import jax.numpy as jnp
    from scipy.stats import norm

    V = []
    kind = ref["kind"]
    d = d.reset(jax.random.PRNGKey(key_seed))
    rng0 = onp.array(d.rng) if hasattr(d, "rng") else None
    # ---- sampling
    prev = None
    for shape in [None, (), (5,), (3, 4), 7]:
        d2, s = d.sample(shape) if shape is not None else d.sample()
        s = onp.asarray(s)
        stats["samples_checked"] += int(s.size)
        exp_shape = () if shape in (None, ()) else ((shape,) if isinstance(shape, int) else tuple(shape))
        if s.shape != exp_shape:
            V.append(dict(clause="sample_shape", shape=shape, got=list(s.shape)))
        if (s < 0).any() or not onp.isfinite(s).all():
            V.append(dict(clause="negative_or_nonfinite_sample", shape=shape, min=float(s.min())))
        if rng0 is not None:
            if not onp.array_equal(onp.array(d.rng), rng0):
                V.append(dict(clause="sample_mutated_receiver"))
            if kind != "train" and onp.array_equal(onp.array(d2.rng), rng0):
                V.append(dict(clause="sample_did_not_advance_rng"))
        # purity: same receiver, same shape -> same samples
        _, s_again = d.sample(shape) if shape is not None else d.sample()
        if not onp.array_equal(onp.asarray(s_again), s):
            V.append(dict(clause="sample_not_a_function_of_rng_state", shape=shape))
    # replay after reset, eager vs jit(sample_pure)
    k = jax.random.PRNGKey(key_seed + 1)
    a1 = onp.asarray(d.reset(k).sample((6,))[1])
    a2 = onp.asarray(d.reset(k).sample((6,))[1])
    if not onp.array_equal(a1, a2):
        V.append(dict(clause="reset_does_not_replay"))
    pj = jax.jit(type(d).sample_pure, static_argnums=1)
    dj, a3 = pj(d.reset(k), 6)
    if not onp.allclose(onp.asarray(a3), a1, rtol=3e-6, atol=3e-6 * max(float(onp.abs(a1).max()), 1e-9)):  # jit vs eager may differ by float32 rounding (fused ops), not more
        V.append(dict(clause="jit_sample_differs_from_eager", eager=a1.tolist(), jit=onp.asarray(a3).tolist()))
    if kind in ("norm", "mix") and ref.get("stochastic"):
        # consecutive batches come from a moving stream
        d_a, s_a = d.reset(k).sample((6,))
        d_b, s_b = d_a.sample((6,))
        # (samples that are all clipped to 0 -- mean far below 0 -- are legitimately identical)
        if onp.array_equal(onp.asarray(s_a), onp.asarray(s_b)) and (onp.asarray(s_a) > 0).any():
            V.append(dict(clause="consecutive_samples_identical"))
        if onp.array_equal(onp.asarray(d_a.rng), onp.asarray(d_b.rng)):
            V.append(dict(clause="consecutive_samples_same_rng_state"))
        # batch statistics: mean within 7 sigma/sqrt(n) of the clipped mean (loose sanity of 'sampled from the configured distribution')
    # ---- quantiles
    qs = [0.005, 0.01, 0.1, 0.25, 0.5, 0.75, 0.9, 0.99, 0.995]
    try:
        v = onp.array([float(d.quantile(q)) for q in qs])
    except RuntimeError as ex:
        if "Grid does not span" in str(ex):
            return V, "rejected: " + str(ex)[:60]
        raise
    stats["quantiles_checked"] += len(qs)
    if (onp.diff(v) < -1e-9).any():
        V.append(dict(clause="quantile_not_monotone", q=qs, v=v.tolist()))
    if kind == "det":
        if (onp.abs(v - ref["loc"]) > 1e-7 * max(1, abs(ref["loc"]))).any():
            V.append(dict(clause="deterministic_quantile_not_loc", v=v.tolist(), loc=ref["loc"]))
        # a constant has the same quantile at EVERY level, including the extreme levels 0 and 1 and array-valued levels
        ve = [float(d.quantile(0.0)), float(d.quantile(1.0))] + onp.asarray(d.quantile(onp.array([0.0, 0.3, 1.0]))).ravel().tolist() + \
            [float(type(d).quantile_pure(d, 1.0))]
        stats["quantiles_checked"] += len(ve)
        if not all(abs(x - ref["loc"]) <= 1e-7 * max(1, abs(ref["loc"])) for x in ve):
            V.append(dict(clause="deterministic_quantile_not_loc_at_extreme_levels", v=ve, loc=ref["loc"]))
    elif kind == "norm":
        if ref["scale"] > 0:
            cdf = norm.cdf((v - ref["loc"]) / ref["scale"])
            if (onp.abs(cdf - onp.array(qs)) > 2e-5).any():
                V.append(dict(clause="normal_quantile_disagrees_with_cdf", q=qs, cdf=cdf.tolist(), params=ref))
        elif (onp.abs(v - ref["loc"]) > 1e-7).any():
            V.append(dict(clause="degenerate_normal_quantile_not_loc", v=v.tolist()))
    elif kind == "mix":
        w, loc, scale = onp.array(ref["w"]), onp.array(ref["loc"]), onp.array(ref["scale"])
        cdf = mix_cdf(v, w, loc, scale)
        lo = float((norm.ppf(0.001) * scale + loc).min()) * 0.9
        hi = float((norm.ppf(0.999) * scale + loc).max()) * 1.1
        res = (hi - lo) / 1000
        pdfmax = float(sum(w[j] / (scale[j] * 2.5066) for j in range(len(w))))
        tol = pdfmax * res * 1.5 + 1e-4
        err = onp.abs(cdf - onp.array(qs))
        stats["mixture_worst_err_over_tol_x1000"] = max(stats.get("mixture_worst_err_over_tol_x1000", 0), int(1000 * float((err / tol).max())))
        if (err > tol).any():
            j = int(onp.argmax(err / tol))
            V.append(dict(clause="mixture_quantile_disagrees_with_cdf", q=qs[j], quantile=float(v[j]), cdf_at_quantile=float(cdf[j]), tol=tol, params=ref))
        # extreme levels: rex may refuse them ("Grid does not span"), but an answer must still be monotone and agree with the CDF
        for qx in (0.9999, 0.99999, 0.999999, 1.0 - 1e-7, 0.0001):
            try:
                vx = float(d.quantile(qx))
            except RuntimeError:
                stats["extreme_levels_refused"] += 1
                continue
            stats["extreme_levels_answered"] += 1
            cx = float(mix_cdf(vx, w, loc, scale))
            ok_monotone = (vx >= v[-1] - 1e-9) if qx > 0.995 else (vx <= v[0] + 1e-9)
            if not ok_monotone or abs(cx - qx) > tol:
                V.append(dict(clause="extreme_level_quantile_wrong_instead_of_refused", q=qx, quantile=vx, cdf_at_quantile=cx, q995=float(v[-1]), q005=float(v[0]), params=ref))
                break
    elif kind == "train":
        dval = ref["min"] + ref["alpha"] * (ref["max"] - ref["min"])
        if (onp.abs(v - dval) > 1e-6).any():
            V.append(dict(clause="trainable_quantile_not_delay", v=v.tolist(), delay=dval))
        # requested delays outside [min, max] saturate: alpha in [0,1], samples/mean/quantile inside [min, max] (never negative)
        span = ref["max"] - ref["min"]
        for req in (ref["min"] - 0.5 * span - 1e-3, -0.003, ref["min"], ref["max"], ref["max"] + 0.7 * span):
            a = float(d.get_alpha(req))
            dd = d.replace(alpha=d.get_alpha(req))
            smp = onp.asarray(dd.sample((4,))[1], float)
            vals = [float(dd.quantile(0.5)), float(dd.mean())] + smp.tolist()
            stats["saturation_checked"] += 1
            exp = min(max(req, ref["min"]), ref["max"])
            if not (0.0 <= a <= 1.0) or any(abs(x - exp) > 1e-6 + 1e-5 * abs(exp) for x in vals) or min(vals) < 0:
                V.append(dict(clause="trainable_delay_outside_range_does_not_saturate", requested=req, alpha=a, values=vals[:3], expected=exp, min=ref["min"], max=ref["max"]))
                break
    return V, None


def default_delay_check(dist, ref, stats):
    """node / connection default expected delay == quantile(0.99) and never negative (or construction raises)."""
    from rexmon.witness import Witness

    V = []
    try:
        q99 = float(dist.quantile(0.99))
    except RuntimeError:
        return V
    try:
        a = Witness(name="a", rate=10, delay_dist=dist.dist if hasattr(dist, "dist") else None, idx=0, trace="none") if ref["kind"] != "train" else None
        b = Witness(name="b", rate=10, idx=1, trace="none")
        if a is not None:
            stats["default_delays_checked"] += 1
            if abs(a.delay - q99) > 1e-6 * max(1.0, abs(q99)) or a.delay < 0:
                V.append(dict(clause="node_default_delay_not_q99", delay=a.delay, q99=q99))
        src = a or Witness(name="a", rate=10, idx=0, trace="none")
        b.connect(src, delay_dist=dist if ref["kind"] == "train" else dist.dist)
        c = b.inputs["a"]
        stats["default_delays_checked"] += 1
        if abs(c.delay - q99) > 1e-6 * max(1.0, abs(q99)) or c.delay < 0:
            V.append(dict(clause="connection_default_delay_not_q99", delay=c.delay, q99=q99))
    except AssertionError as ex:
        if q99 >= 0:
            V.append(dict(clause="construction_refused_nonnegative_q99", error=str(ex)[:80], q99=q99))
    return V


def run_case(case):
    import jax.numpy as jnp
    from distrax import Categorical, Deterministic, MixtureSameFamily, Normal

    from rex.base import StaticDist, TrainableDist
    from rexmon import specs as S

    rnd = random.Random(case["spec_seed"])
    nrng = onp.random.default_rng(case["spec_seed"])
    items, counters, samples = [], Counter(), []

    def one(d, ref, tag):
        st = Counter()
        try:
            V, rej = check_dist(d, ref, st, rnd, rnd.randrange(1 << 30))
            if rej is None:
                V += default_delay_check(d, ref, st)
        except Exception as ex:  # an unexpected exception from a public method on a supported distribution
            import traceback

            V, rej = [dict(clause="public_method_raised", error=f"{type(ex).__name__}: {ex}"[:200], tb=traceback.format_exc()[-500:])], None
        for k, v in st.items():
            counters[k] = max(counters[k], v) if k.startswith("mixture_worst") else counters[k] + v
        key = S.digest(ref) + tag
        if rej:
            items.append(dict(status="rejected", key=key, nontrivial=False, note=rej))
        elif V:
            items.append(dict(status="violated", key=key, nontrivial=bool(ref.get("stochastic")), witness=dict(mechanism=V[0]["clause"], violations=V[:3], dist=ref, position_in_sequence=len(items))))
        else:
            items.append(dict(status="held", key=key, nontrivial=bool(ref.get("stochastic"))))

    n = case.get("n", 30)
    for i in range(n):
        kind = rnd.choice(["det", "norm", "norm", "mix", "mix", "mix", "train"])
        scale_t = rnd.choice([0.001, 0.01, 0.1, 1.0])
        if kind == "det":
            loc = round(rnd.choice([0.0, rnd.uniform(0, 1) * scale_t]), 6)
            one(StaticDist.create(Deterministic(loc)), dict(kind="det", loc=loc, stochastic=False), "")
        elif kind == "norm":
            loc = round(rnd.uniform(-0.2, 1.0) * scale_t, 6)
            sc = round(rnd.choice([0.0, rnd.uniform(0.01, 0.6) * scale_t]), 6)
            one(StaticDist.create(Normal(loc, sc)), dict(kind="norm", loc=loc, scale=sc, stochastic=sc > 0), "")
        elif kind == "mix":
            k = rnd.randint(2, 4)
            loc = [round(float(x), 6) for x in nrng.uniform(0.05, 1.0, k) * scale_t]
            sc = [round(float(x), 6) for x in nrng.uniform(0.01, 0.3, k) * scale_t]
            ws = [nrng.dirichlet(onp.ones(k)) for _ in range(3)]
            # the mixture and two siblings with the same components but different weights, evaluated back to back
            for si, w in enumerate(ws):
                w = [round(float(x), 6) for x in w]
                w[-1] = round(1.0 - sum(w[:-1]), 6)
                if min(w) <= 0:
                    continue
                dist = MixtureSameFamily(mixture_distribution=Categorical(probs=jnp.array(w)), components_distribution=Normal(loc=jnp.array(loc), scale=jnp.array(sc)))
                one(StaticDist.create(dist), dict(kind="mix", w=w, loc=loc, scale=sc, stochastic=True), f"/sib{si}")
        else:
            mn = round(rnd.uniform(0, 0.5) * scale_t, 6)
            mx = round(mn + rnd.uniform(0.05, 1.0) * scale_t, 6)
            dl = round(rnd.uniform(mn, mx), 6)
            td = TrainableDist.create(dl, mn, mx)
            one(td, dict(kind="train", min=mn, max=mx, alpha=float(td.alpha), stochastic=False), "")
    # ---- estimator
    from rex.gmm_estimator import GMMEstimator

    for j in range(case.get("n_est", 2)):
        st = Counter()
        V = []
        kindd = rnd.choice(["const1", "const2", "const20", "const100", "noisy", "noisy", "bimodal"])
        scale_t = rnd.choice([0.001, 0.01, 1.0])
        if kindd.startswith("const"):
            nn = int(kindd[5:])
            # constant data of any magnitude (delays logged in s, ms or us): 0, small, and values >= 1 where float32 rounding of the mean matters
            val = round(rnd.choice([0.0, rnd.uniform(0, 1) * scale_t, rnd.uniform(1, 20), rnd.uniform(20, 2000)]), 6)
            data = onp.ones(nn) * val
        elif kindd == "noisy":
            data = onp.clip(nrng.normal(1.0, 0.3, rnd.choice([20, 60])) * scale_t, 0, None)
        else:
            data = onp.clip(onp.concatenate([nrng.normal(0.4, 0.05, 30), nrng.normal(1.2, 0.1, 30)]) * scale_t, 0, None)
        ref = dict(kind="estimator", data_kind=kindd, n=len(data), scale=scale_t, head=[float(x) for x in data[:3]])
        try:
            est = GMMEstimator(data, verbose=False)
            est.fit(num_steps=60, num_components=2, seed=j)
            dist = est.get_dist()
            st["estimator_fits"] += 1
            dd = dist.dist
            if kindd.startswith("const"):
                if not isinstance(dd, Deterministic):
                    V.append(dict(clause="constant_data_not_deterministic", got=type(dd).__name__, n=len(data)))
                elif abs(float(dd.loc) - float(data.mean())) > 1e-6 * max(1, abs(data.mean())):
                    V.append(dict(clause="deterministic_loc_not_data_mean", loc=float(dd.loc), mean=float(data.mean())))
            else:
                w = onp.asarray(dd.mixture_distribution.probs, float)
                m = onp.asarray(dd.components_distribution.loc, float)
                s = onp.asarray(dd.components_distribution.scale, float)
                if abs(w.sum() - 1) > 1e-5 or (w < 0).any():
                    V.append(dict(clause="estimator_weights_not_a_distribution", w=w.tolist()))
                if not (s > 0).all() or not onp.isfinite(s).all():
                    V.append(dict(clause="estimator_scales_not_positive", s=s.tolist()))
                mean, std = float(data.mean()), float(data.std())
                if (onp.abs(m - mean) > 6 * std + 1e-12).any() or (s > 50 * std).any() or (s < 1e-6 * std).any():
                    V.append(dict(clause="estimator_not_in_data_units", means=m.tolist(), scales=s.tolist(), data_mean=mean, data_std=std))
                # units: scaling the data by c scales means and scales by c
                c = rnd.choice([0.01, 10.0, 1000.0])
                est2 = GMMEstimator(data * c, verbose=False)
                est2.fit(num_steps=60, num_components=2, seed=j)
                d2 = est2.get_dist().dist
                if isinstance(d2, MixtureSameFamily):
                    m2 = onp.asarray(d2.components_distribution.loc, float)
                    s2 = onp.asarray(d2.components_distribution.scale, float)
                    if m2.shape == m.shape:
                        if not onp.allclose(m2, m * c, rtol=5e-3, atol=1e-4 * std * c) or not onp.allclose(s2, s * c, rtol=5e-3):
                            V.append(dict(clause="estimator_units_do_not_scale_with_data", c=c, means=m.tolist(), means_scaled=m2.tolist(), scales=s.tolist(), scales_scaled=s2.tolist()))
                # pruning percentile: every percentile returns a proper distribution (weights renormalised, positive scales, components a subset)
                dfull = est.get_dist(percentile=1.0).dist  # nothing pruned: the reference set of components
                m_all = onp.asarray(dfull.components_distribution.loc, float) if isinstance(dfull, MixtureSameFamily) else m
                for pct in (0.1, 0.5, 0.9, 0.999):
                    dp = est.get_dist(percentile=pct).dist
                    st["estimator_percentiles_checked"] += 1
                    if isinstance(dp, MixtureSameFamily):
                        wp = onp.asarray(dp.mixture_distribution.probs, float)
                        sp = onp.asarray(dp.components_distribution.scale, float)
                        mp = onp.asarray(dp.components_distribution.loc, float)
                        if abs(wp.sum() - 1) > 1e-5 or (wp < 0).any() or not (sp > 0).all() or len(wp) < 1 or not all(any(abs(a - b) < 1e-6 * max(1, abs(b)) for b in m_all) for a in mp):
                            V.append(dict(clause="estimator_percentile_distribution_improper", percentile=pct, w=wp.tolist(), scales=sp.tolist(), means=mp.tolist()))
                # the returned distribution is usable: samples >= 0, quantile monotone
                VV, rej = check_dist(dist, dict(kind="mix", w=w.tolist(), loc=m.tolist(), scale=s.tolist(), stochastic=True), st, rnd, 5)
                V += VV
        except Exception as ex:
            import traceback

            V.append(dict(clause="estimator_raised", error=f"{type(ex).__name__}: {ex}"[:200], tb=traceback.format_exc()[-400:]))
        counters.update({k: v for k, v in st.items() if not k.startswith("mixture_worst")})
        key = S.digest(ref)
        if V:
            items.append(dict(status="violated", key=key, nontrivial=not kindd.startswith("const"), witness=dict(mechanism=V[0]["clause"], violations=V[:3], data=ref)))
        else:
            items.append(dict(status="held", key=key, nontrivial=not kindd.startswith("const")))
    samples.append(dict(first=[it["key"] for it in items[:3]], evaluated=len(items)))
    return dict(items=items, counters=dict(counters), samples=samples)


def plan(tier, seed):
    n, per, est = (14, 24, 2) if tier == "quick" else (200, 40, 3)
    return [dict(name=f"b-{i}", spec_seed=seed * 100207 + i, n=per, n_est=est, timeout=600) for i in range(n)]
