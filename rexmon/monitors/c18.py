"""C18 — search solvers keep the best candidate, respect bounds and ignore NaN losses (history monitor over solver iterations)."""
import random
from collections import Counter

import numpy as onp

RULE = ("CEM (cem_step driven from Python and jitted cem()) and evosax strategies (evo_step / jitted evo(): CMA_ES, OpenES, SimpleGA, DE, PSO, "
        "Sep_CMA_ES) on loss functions: convex, multimodal, plateau (piecewise-constant -> ties), constant, NaN on a half-space, NaN with "
        "probability p, and schedules with ALL-NaN generations after a finite best; tight and loose bounds, populations 4-120, elite "
        "portions, smoothing 0-0.9; every candidate and loss of every generation is captured by a callback inside the loss function and the "
        "solver state is checked after each generation: candidates within bounds, best-so-far loss never increases and equals the smallest "
        "finite loss evaluated so far, the best candidate is an evaluated candidate attaining it, NaN never elite/best while a finite "
        "candidate exists, CEM's next mean is the smoothed mean of the lowest-loss elites; one evaluation = one solver generation; "
        "non-trivial = generation containing both NaN and finite losses or ties; distinct by configuration digest x generation")
RULE += ' Built later: two-leaf parameter trees; optimum on or beyond the bounds.'
MIN_NONTRIVIAL = {"quick": 150, "thorough": 4000}
DECIDING = ["generations_checked", "candidates_checked"]
ASSUMPTIONS = ["jax.debug.callback inside the vmapped loss is called once per candidate", "elite-mean clause is skipped when the elite boundary falls on a loss tie"]
LEVEL = "exploration"
WORKERS = 14

LOG = []


def _rec(p, l):
    LOG.append((onp.array(p, dtype=onp.float64), float(l)))


def make_loss(kind, target, nan_p, phase):
    import jax
    import jax.numpy as jnp

    def loss(params, transform, rng):
        tp = transform.apply(params)
        p = tp["p"]
        if "q" in tp:  # a second leaf of another shape (scalar): the parameter pytree is not a single array
            p = jnp.concatenate([p, jnp.reshape(tp["q"], (1,))])
        d = p - target
        if kind == "convex":
            v = jnp.sum(d**2)
        elif kind == "multimodal":
            v = jnp.sum(d**2) + jnp.sum(1 - jnp.cos(6 * d))
        elif kind == "plateau":
            v = jnp.floor(jnp.sum(jnp.abs(d)) * 2.0) / 2.0
        elif kind == "constant":
            v = jnp.float32(1.0) + 0.0 * jnp.sum(d)
        elif kind == "halfspace":
            v = jnp.where(p[0] > target[0], jnp.nan, jnp.sum(d**2))
        else:
            raise ValueError(kind)
        if nan_p > 0:
            v = jnp.where(jax.random.uniform(rng) < nan_p, jnp.nan, v)
        if phase["all_nan"]:
            v = v * jnp.nan
        jax.debug.callback(_rec, p, v)
        return v

    return loss


def check_generation(gen, umin, umax, prev_best, best_so_far, new_best_loss, new_best_member, stats, solver_name):
    """gen: list of (candidate, loss) of this generation. Returns (violations, new best_so_far)."""
    V = []
    cands = onp.array([c for c, _ in gen])
    losses = onp.array([l for _, l in gen])
    stats["candidates_checked"] += len(gen)
    if (cands < umin - 1e-6).any() or (cands > umax + 1e-6).any():
        i = int(onp.argmax(((cands < umin - 1e-6) | (cands > umax + 1e-6)).any(axis=1)))
        V.append(dict(clause="candidate_outside_bounds", candidate=cands[i].tolist(), u_min=umin.tolist(), u_max=umax.tolist()))
    fin = losses[onp.isfinite(losses)]
    if len(fin):
        best_so_far = min(best_so_far, float(fin.min()))
    nb = float(new_best_loss)
    if onp.isnan(nb):
        if onp.isfinite(best_so_far):
            V.append(dict(clause="best_loss_is_nan_although_finite_loss_seen", best_so_far=best_so_far))
    else:
        if onp.isfinite(prev_best) and nb > prev_best + 1e-7 * max(1, abs(prev_best)):
            V.append(dict(clause="best_so_far_loss_increased", before=prev_best, after=nb))
        big = nb > 1e30  # evosax starts from finfo.max, CEM from inf
        if onp.isfinite(best_so_far):
            if abs(nb - best_so_far) > 1e-6 * max(1.0, abs(best_so_far)):
                V.append(dict(clause="best_loss_not_smallest_finite_loss_so_far", reported=nb, smallest_finite=best_so_far))
        elif not big and onp.isfinite(nb):
            V.append(dict(clause="best_loss_finite_without_finite_evaluation", reported=nb))
    return V, best_so_far


def attained(best_member, best_loss, history):
    """the reported best candidate is one of the evaluated candidates, and its own loss is the reported best loss"""
    bm = onp.asarray(best_member, float).ravel()
    for c, l in history:
        if onp.allclose(c.ravel(), bm, rtol=0, atol=1e-6) and onp.isfinite(l) and abs(l - best_loss) <= 1e-6 * max(1.0, abs(best_loss)):
            return True, None
    same = [l for c, l in history if onp.allclose(c.ravel(), bm, rtol=0, atol=1e-6)]
    return False, same[:3]


def run_cem(cfg, rnd, stats):
    import jax
    import jax.numpy as jnp

    from rex.base import Identity
    from rex.cem import CEMSolver, cem, cem_step

    V = []
    dim = cfg["dim"]
    umin = onp.array(cfg["umin"])
    umax = onp.array(cfg["umax"])
    two = bool(cfg.get("two_leaf")) and len(umin) >= 2

    def tree(v):
        v = jnp.asarray(v, jnp.float32)
        return {"p": v[:-1], "q": v[-1]} if two else {"p": v}

    def flat(t):
        return onp.concatenate([onp.asarray(t["p"], float).ravel(), onp.asarray(t["q"], float).ravel()]) if two else onp.asarray(t["p"], float)

    solver = CEMSolver.init(tree(umin), tree(umax), num_samples=cfg["pop"], evolution_smoothing=cfg["smooth"], elite_portion=cfg["elite"])
    state = solver.init_state(tree((umin + umax) / 2))
    phase = dict(all_nan=False)
    loss = make_loss(cfg["loss"], jnp.array(cfg["target"], jnp.float32), cfg["nan_p"], phase)
    key = jax.random.PRNGKey(cfg["seed"])
    best = onp.inf
    history = []
    n_el = int(cfg["pop"] * cfg["elite"])
    nontriv = 0
    for it in range(cfg["iters"]):
        phase["all_nan"] = it in cfg["all_nan_iters"]
        key, k = jax.random.split(key)
        LOG.clear()
        new_state, losses = cem_step(loss, solver, state, Identity.init(), k)
        jax.block_until_ready(new_state)
        jax.effects_barrier()
        gen = list(LOG)
        if len(gen) != cfg["pop"]:
            V.append(dict(clause="harness_callback_count", got=len(gen), pop=cfg["pop"]))
            break
        history += gen
        stats["generations_checked"] += 1
        prev = float(state.bestsofar_loss)
        v, best = check_generation(gen, umin, umax, prev, best, new_state.bestsofar_loss, flat(new_state.bestsofar), stats, "cem")
        V += [dict(x, generation=it) for x in v]
        ls = onp.array([l for _, l in gen])
        if onp.isfinite(float(new_state.bestsofar_loss)):
            ok, same = attained(flat(new_state.bestsofar), float(new_state.bestsofar_loss), history)
            if not ok:
                V.append(dict(clause="best_candidate_does_not_attain_best_loss", generation=it, best_loss=float(new_state.bestsofar_loss), losses_of_that_candidate=same))
        if onp.isnan(ls).any() and onp.isfinite(ls).any() or len(set(ls[onp.isfinite(ls)].tolist())) < int(onp.isfinite(ls).sum()):
            nontriv += 1
        # elite clause: next mean == smoothing*mean + (1-smoothing)*mean(lowest-loss n_el candidates), NaN counted as +inf
        eff = onp.where(onp.isnan(ls), onp.inf, ls)
        order = onp.argsort(eff, kind="stable")
        if n_el >= 1 and n_el < len(eff) and eff[order[n_el - 1]] < eff[order[n_el]] and onp.isfinite(eff[order[n_el - 1]]):
            cands = onp.array([c for c, _ in gen])
            exp_mean = cfg["smooth"] * flat(state.mean) + (1 - cfg["smooth"]) * cands[order[:n_el]].mean(axis=0)
            stats["elite_means_checked"] += 1
            if not onp.allclose(flat(new_state.mean), exp_mean, rtol=1e-4, atol=1e-5):
                V.append(dict(clause="next_mean_not_smoothed_mean_of_lowest_loss_elites", generation=it, got=flat(new_state.mean).tolist(), expected=exp_mean.tolist(),
                              nan_in_generation=int(onp.isnan(ls).sum())))
        state = new_state
        if len(V) > 3:
            break
    # jitted cem(): final best == smallest finite loss of the whole run
    phase["all_nan"] = False
    LOG.clear()
    st0 = solver.init_state(tree((umin + umax) / 2))
    fin_state, all_losses = jax.jit(lambda s, k_: cem(loss, solver, s, Identity.init(), max_steps=cfg["iters"], rng=k_, verbose=False))(st0, jax.random.PRNGKey(cfg["seed"] + 1))
    jax.block_until_ready(fin_state)
    jax.effects_barrier()
    al = onp.asarray(all_losses, float)
    stats["jitted_runs_checked"] += 1
    if onp.isfinite(al).any():
        mn = float(onp.nanmin(onp.where(onp.isfinite(al), al, onp.nan)))
        if not abs(float(fin_state.bestsofar_loss) - mn) <= 1e-6 * max(1, abs(mn)):
            V.append(dict(clause="jitted_cem_final_best_not_smallest_finite_loss", reported=float(fin_state.bestsofar_loss), smallest=mn))
        ok, same = attained(flat(fin_state.bestsofar), float(fin_state.bestsofar_loss), list(LOG))
        if not ok and onp.isfinite(float(fin_state.bestsofar_loss)):
            V.append(dict(clause="jitted_cem_best_candidate_does_not_attain", losses_of_that_candidate=same))
        per_gen_best = onp.minimum.accumulate(onp.where(onp.isfinite(al), al, onp.inf).min(axis=1))
    return V, nontriv


def run_evo(cfg, rnd, stats):
    import jax
    import jax.numpy as jnp

    from rex.base import Identity
    from rex.evo import EvoSolver, evo, evo_step

    V = []
    umin = onp.array(cfg["umin"])
    umax = onp.array(cfg["umax"])
    try:
        two = bool(cfg.get("two_leaf")) and len(umin) >= 2

        def tree(v):
            v = jnp.asarray(v, jnp.float32)
            return {"p": v[:-1], "q": v[-1]} if two else {"p": v}

        solver = EvoSolver.init(tree(umin), tree(umax), strategy=cfg["strategy"], strategy_kwargs=dict(popsize=cfg["pop"]))
        state = solver.init_state(tree((umin + umax) / 2), rng=jax.random.PRNGKey(cfg["seed"]))
    except Exception as e:
        return None, f"strategy refused: {type(e).__name__}: {e}"[:120]
    pop = solver.strategy.popsize
    phase = dict(all_nan=False)
    loss = make_loss(cfg["loss"], jnp.array(cfg["target"], jnp.float32), cfg["nan_p"], phase)
    told = []
    orig_tell = solver.strategy.tell

    def tell(x, fitness, st, params):
        told.append(onp.asarray(fitness, float))
        return orig_tell(x, fitness, st, params)

    try:
        object.__setattr__(solver.strategy, "tell", tell)
    except Exception:
        pass
    key = jax.random.PRNGKey(cfg["seed"] + 3)
    best = onp.inf
    history = []
    nontriv = 0
    for it in range(cfg["iters"]):
        phase["all_nan"] = it in cfg["all_nan_iters"]
        key, k = jax.random.split(key)
        LOG.clear()
        told.clear()
        (new_state, _), losses = evo_step(loss, solver, state, Identity.init(), k)
        jax.block_until_ready(new_state)
        jax.effects_barrier()
        gen = list(LOG)
        if len(gen) != pop:
            V.append(dict(clause="harness_callback_count", got=len(gen), pop=pop))
            break
        history += gen
        stats["generations_checked"] += 1
        prev = float(state.best_fitness)
        prev = prev if prev < 1e30 else onp.inf
        v, best = check_generation(gen, umin, umax, prev, best, new_state.best_fitness, new_state.best_member, stats, "evo")
        V += [dict(x, generation=it, strategy=cfg["strategy"]) for x in v]
        for f in told:
            stats["tell_calls_checked"] += 1
            if onp.isnan(f).any():
                V.append(dict(clause="nan_fitness_reached_the_strategy", generation=it))
        ls = onp.array([l for _, l in gen])
        nbf = float(new_state.best_fitness)
        if onp.isfinite(nbf) and nbf < 1e30:
            ok, same = attained(new_state.best_member, nbf, history)
            if not ok:
                V.append(dict(clause="best_candidate_does_not_attain_best_loss", generation=it, strategy=cfg["strategy"], best_loss=nbf, losses_of_that_candidate=same))
        if onp.isnan(ls).any() and onp.isfinite(ls).any() or len(set(ls[onp.isfinite(ls)].tolist())) < int(onp.isfinite(ls).sum()):
            nontriv += 1
        state = new_state
        if len(V) > 3:
            break
    # jitted evo()
    phase["all_nan"] = False
    LOG.clear()
    try:
        object.__setattr__(solver.strategy, "tell", orig_tell)
    except Exception:
        pass
    st0 = solver.init_state(tree((umin + umax) / 2), rng=jax.random.PRNGKey(cfg["seed"]))
    fin_state, _, all_losses = jax.jit(lambda s, k_: evo(loss, solver, s, Identity.init(), max_steps=cfg["iters"], rng=k_, verbose=False))(st0, jax.random.PRNGKey(cfg["seed"] + 9))
    jax.block_until_ready(fin_state)
    jax.effects_barrier()
    al = onp.asarray(all_losses, float)
    stats["jitted_runs_checked"] += 1
    if onp.isfinite(al).any():
        mn = float(onp.where(onp.isfinite(al), al, onp.inf).min())
        if not abs(float(fin_state.best_fitness) - mn) <= 1e-6 * max(1, abs(mn)):
            V.append(dict(clause="jitted_evo_final_best_not_smallest_finite_loss", reported=float(fin_state.best_fitness), smallest=mn, strategy=cfg["strategy"]))
        ok, same = attained(fin_state.best_member, float(fin_state.best_fitness), list(LOG))
        if not ok:
            V.append(dict(clause="jitted_evo_best_candidate_does_not_attain", strategy=cfg["strategy"], losses_of_that_candidate=same))
    return V, nontriv


def run_case(case):
    from rexmon import specs as S

    rnd = random.Random(case["spec_seed"])
    items, counters, samples = [], Counter(), []
    for t in range(case.get("n", 6)):
        dim = rnd.randint(1, 3)
        lo = [round(rnd.uniform(-2, 0), 3) for _ in range(dim)]
        width = rnd.choice([0.05, 0.5, 2.0, 4.0])
        hi = [round(a + width * rnd.uniform(0.5, 1.5), 3) for a in lo]
        iters = case.get("iters", 8)
        pop = rnd.choice([4, 6, 8, 16, 40, 120])
        elite = rnd.choice([0.1, 0.25, 0.5])
        while int(pop * elite) < 1:
            elite *= 2
        cfg = dict(solver=case["solver"] if case.get("solver") else rnd.choice(["cem", "evo"]), dim=dim, umin=lo, umax=hi, pop=pop, elite=elite,
                   smooth=round(rnd.choice([0.0, 0.1, 0.5, 0.9]), 2), loss=rnd.choice(["convex", "multimodal", "plateau", "plateau", "constant", "halfspace"]),
                   nan_p=rnd.choice([0.0, 0.0, 0.3, 0.7, 0.9]),
                   # the optimum may lie inside, on or beyond the bounds (then the best candidates are clipped ones)
                   target=[round(rnd.choice([rnd.uniform(a, b), a, b, b + (b - a), a - 0.5 * (b - a)]), 3) for a, b in zip(lo, hi)], iters=iters,
                   all_nan_iters=sorted(rnd.sample(range(1, iters), rnd.choice([0, 0, 1, 2]))), seed=rnd.randrange(1 << 20),
                   strategy=rnd.choice(["CMA_ES", "OpenES", "SimpleGA", "DE", "PSO", "Sep_CMA_ES"]), two_leaf=(rnd.random() < 0.4))
        if rnd.random() < 0.2:
            cfg["all_nan_iters"] = sorted(set(cfg["all_nan_iters"]) | {0})  # NaN-only first generation: no finite best yet
        st = Counter()
        try:
            if cfg["solver"] == "cem":
                V, nontriv = run_cem(cfg, rnd, st)
            else:
                cfg["pop"] = max(cfg["pop"], 8) if cfg["pop"] % 2 == 0 else cfg["pop"] + 1
                V, nontriv = run_evo(cfg, rnd, st)
        except Exception as ex:
            import traceback

            V, nontriv = [dict(clause="solver_raised", error=f"{type(ex).__name__}: {ex}"[:200], tb=traceback.format_exc()[-600:])], 0
        counters.update(st)
        key = S.digest(cfg)
        if V is None:
            items.append(dict(status="rejected", key=key, nontrivial=False, note=nontriv))
            continue
        gens = max(1, st["generations_checked"])
        if V:
            items.append(dict(status="violated", key=key, nontrivial=True, witness=dict(mechanism=V[0]["clause"], violations=V[:3], config=cfg)))
        else:
            items += [dict(status="held", key=f"{key}/{g}", nontrivial=(g < nontriv)) for g in range(gens)]
        if t == 0:
            samples.append(cfg)
    return dict(items=items, counters=dict(counters), samples=samples)


def plan(tier, seed):
    n, per, iters = (14, 6, 8) if tier == "quick" else (150, 12, 12)
    return [dict(name=f"s-{i}", spec_seed=seed * 100267 + i, n=per, iters=iters, solver=["cem", "evo"][i % 2], timeout=900) for i in range(n)]
