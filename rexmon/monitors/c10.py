"""C10 — a trainable delay set to d behaves exactly like a static delay of d (differential monitor, zero-order hold)."""
import math
import random
from collections import Counter

import numpy as onp

RULE = ("G_gen witness graphs (hash_ts off) in which one non-blocking connection is (T) TrainableDist(min,max,zoh) with the delay set to d "
        "through create(d), through init_delays (distribution created at another delay d0, incl. d0 > d), or by replacing alpha in the "
        "initial graph state, and (S) Deterministic(d); same rng, same explicit expected delay (d, min, 0 or random, so that steps also "
        "fall between the minimal-delay and the d-delay arrival); both compiled and run with jit(rollout); on vertices executed in both, "
        "window seqs/payload hashes/ts_recv, states and outputs must agree and the window must have exactly `window` entries; d outside "
        "[min,max] must behave as the bound; near-ties (|ts_sent+d-ts_start| < 1e-5) are excluded; one evaluation = one (graph, d, way of "
        "setting d); non-trivial = >=10 compared receiver steps with >=1 step whose window differs from the minimal-delay window; "
        "distinct by spec digest x d x way")
MIN_NONTRIVIAL = {"quick": 6, "thorough": 100}
DECIDING = ["steps_compared", "receiver_steps_compared"]
ASSUMPTIONS = ["explicit expected delays are passed to both systems (TrainableDist.quantile and Deterministic(d) differ by 1 ulp otherwise)",
               "a divergence is classified as the known finding only if, at the first diverging step, the number of sender outputs with ts_sent in "
               "(ts_start-d, ts_start-min] exceeds the window extension; any other divergence, and any with a jitter-free sender, is a violation"]
LEVEL = "exploration"
WORKERS = 12


def run_case(case):
    import jax
    import jax.numpy as jnp

    from rexmon import drive_comp as C
    from rexmon import specs as S
    from rexmon import witness as W

    rnd = random.Random(case["spec_seed"])
    spec = S.rand_gen(case["spec_seed"], n_min=2, n_max=4, max_window=3)
    jitter_free = case.get("jitter_free", rnd.random() < 0.6)
    cands = [c for c in spec["conns"] if not c["skip"]] or spec["conns"]
    tc = rnd.choice(cands)
    sender = [n for n in spec["nodes"] if n["name"] == tc["out"]][0]
    rate = sender["rate"]
    if jitter_free:
        sender["delay"] = ["det", round(rnd.uniform(0.05, 0.5) / rate, 5)]
    else:
        sender["delay"] = ["norm", round(0.4 / rate, 5), round(rnd.choice([0.02, 0.1, 0.3]) / rate, 5)]
    dmin = round(rnd.choice([0.0, rnd.uniform(0.02, 0.3) / rate, rnd.uniform(0.02, 0.3) / rate]), 5)
    if case.get("way") == "create":  # the delay set "through the distribution": a range that does not start at 0 is where mean()/sample() offsets matter
        dmin = max(dmin, round(0.05 / rate, 5))
    wide_range = rnd.random() < 0.7  # two thirds: a range of at least one sender period and d in its upper half, so that d moves messages
    dmax = round(dmin + (rnd.uniform(1.0, 2.5) if wide_range else rnd.uniform(0.3, 2.5)) / rate, 5)
    way = case.get("way") or rnd.choice(["create", "init_delays", "init_delays_lower", "alpha", "saturate_hi", "saturate_lo"])
    d = round(rnd.uniform(dmin + 0.5 * (dmax - dmin) if wide_range else dmin, dmax), 5)
    if rnd.random() < 0.15:
        d = rnd.choice([dmin, dmax])
    d_static = d
    d0 = d
    if way == "init_delays":
        d0 = round(rnd.uniform(dmin, dmax), 5)
    elif way == "init_delays_lower":
        d0 = round(rnd.uniform(d, dmax), 5)
    elif way == "alpha":
        d0 = dmin
    elif way == "saturate_hi":
        d0, d, d_static = dmin, round(dmax + rnd.uniform(0.001, 0.05), 5), dmax
    elif way == "saturate_lo":
        d0, d, d_static = dmax, round(max(dmin - rnd.uniform(0.001, 0.05), -0.01), 5), dmin
    # the default phase alignment (expected == d with a jitter-free sender) makes ts_start == ts_recv an exact float tie, which the
    # near-tie rule must exclude (1-ulp differences between ts_end + d and ts_sent + (min + alpha*(max-min))); offset it slightly
    u = round(rnd.uniform(2e-5, 2e-3), 6)
    expected = rnd.choice([d_static + u, d_static + u, dmin + u, u, round(rnd.uniform(0, d_static + 1e-9), 5) + u])
    for c in spec["conns"]:
        c["expected"] = S.q99(c["delay"]) if c is not tc else expected
    for n in spec["nodes"]:
        n["expected"] = S.q99(n["delay"])
    if rnd.random() < 0.5:
        tc["name"] = "in_" + tc["out"]  # shadow input name: init_delays is documented to be keyed by the INPUT name
    in_name = tc.get("name", tc["out"])
    dg = S.digest(dict(spec=spec, tc=(tc["out"], tc["inp"])))
    cfg = dict(conn=(tc["out"], tc["inp"]), input_name=tc.get("name"), window=tc["window"], rate_out=rate, min=dmin, max=dmax, d=d, d_static=d_static, d0=d0, way=way, expected=expected,
               jitter_free=jitter_free)
    out = {}
    ts_max = rnd.choice([0.8, 1.2])
    for sysname in ("T", "S"):
        sp = {**spec, "conns": [dict(c) for c in spec["conns"]]}
        for c in sp["conns"]:
            if (c["out"], c["inp"]) == (tc["out"], tc["inp"]):
                c["delay"] = ["train", d0, dmin, dmax, "zoh"] if sysname == "T" else ["det", d_static]
        nodes, sup, cg = C.generated_graph(sp, ts_max=ts_max, num_episodes=1, seed=case["spec_seed"], trace="io", hash_ts=False)
        if sysname == "T" and way in ("init_delays", "init_delays_lower", "saturate_hi", "saturate_lo"):
            nodes[tc["inp"]].delay_overrides = {in_name: d}
        try:
            G = C.build_compiled(nodes, sup, cg, mode=case.get("mode", "mcs"), prune=True)
        except C.Rejected as e:
            return dict(items=[dict(status="rejected", key=dg, nontrivial=False, note=str(e)[:120])], counters={"rejected_graph": 1})
        gs = G.init(jax.random.PRNGKey(case["spec_seed"] + 1))
        if sysname == "T" and way == "alpha":
            dd = gs.inputs[tc["inp"]][in_name].delay_dist
            new_in = gs.inputs[tc["inp"]][in_name].replace(delay_dist=dd.replace(alpha=dd.get_alpha(d)))
            gs = gs.replace(inputs=gs.inputs.copy({tc["inp"]: gs.inputs[tc["inp"]].copy({in_name: new_in})}))
        W.trace_clear()
        res = jax.jit(G.rollout)(gs)
        jax.block_until_ready(res)
        jax.effects_barrier()
        tr = W.decode_trace(W.trace_snapshot(), S.input_layout(nodes))
        idx2name = {n.idx: k for k, n in nodes.items()}
        out[sysname] = dict(trace={(idx2name[t["idx"]], t["seq"]): t for t in tr}, cg=C.npz(cg), ext=nodes[tc["out"]].outputs[tc["inp"]].delay_dist.window(rate))
    A, B = out["T"]["trace"], out["S"]["trace"]
    cgS = out["S"]["cg"]
    recv, snd = tc["inp"], tc["out"]
    ts_b = cgS.vertices[recv].ts_start[0]
    ts_b = ts_b[cgS.vertices[recv].seq[0] >= 0]
    e = cgS.edges[(snd, recv)]
    trv = e.ts_recv[0][e.seq_out[0] >= 0]
    near = float(onp.min(onp.abs(trv[:, None] - ts_b[None, :]))) if len(trv) and len(ts_b) else 1.0
    counters = Counter()
    if near < 1e-5:
        return dict(items=[dict(status="rejected", key=dg, nontrivial=False, note=f"near-tie {near:.2e} excluded")], counters={"near_ties_excluded": 1})
    ev = []
    differs_from_min = 0
    for key in sorted(set(A) & set(B), key=lambda k: A[k]["ts"]):
        a, b = A[key], B[key]
        counters["steps_compared"] += 1
        if key[0] == recv:
            counters["receiver_steps_compared"] += 1
        fields = [("st_h", a["st_h"], b["st_h"]), ("out_h", a["out_h"], b["out_h"]), ("rng", (a["rng0"], a["rng1"]), (b["rng0"], b["rng1"]))]
        if abs(a["ts"] - b["ts"]) > 5e-7:
            fields.append(("ts", a["ts"], b["ts"]))
        for m in a["inputs"]:
            ra, rb = a["inputs"][m], b["inputs"][m]
            if len(ra) != len(rb):
                fields.append((f"in.{m}.window_length", len(ra), len(rb)))
                continue
            sa = [r["seq"] if r["seq"] >= 0 else -1 for r in ra]
            sb = [r["seq"] if r["seq"] >= 0 else -1 for r in rb]
            fields.append((f"in.{m}.seq", sa, sb))
            fields.append((f"in.{m}.payload", [(r["d_src"], r["d_seq"], r["d_h"]) for r in ra], [(r["d_src"], r["d_seq"], r["d_h"]) for r in rb]))
            if sa == sb:
                tra = [r["ts_recv"] for r in ra if r["seq"] >= 0]
                trb = [r["ts_recv"] for r in rb if r["seq"] >= 0]
                if any(abs(x - y) > 5e-7 for x, y in zip(tra, trb)):
                    fields.append((f"in.{m}.ts_recv", tra, trb))
        for w, x, y in fields:
            if x != y:
                ev.append(dict(ts=a["ts"], node=key[0], seq=key[1], field=w, trainable=x, static=y))
    # did d matter at all? (non-triviality): the static graph's edge consumption differs from the minimal-delay one
    eT = out["T"]["cg"].edges[(snd, recv)]
    differs_from_min = int((onp.asarray(eT.seq_in[0]) != onp.asarray(e.seq_in[0])).sum())
    counters["messages_shifted_by_d"] = differs_from_min
    nontriv = counters["receiver_steps_compared"] >= 10 and differs_from_min >= 1
    items = []
    key = f"{dg}/{d}/{way}"
    if ev:
        ev.sort(key=lambda x: x["ts"])
        first = ev[0]
        mech = "trainable_differs_from_static"
        # known-finding classifier: sender outputs between "arrived under d" and "arrived under min" exceed the extension
        ta = cgS.vertices[snd].ts_end[0][cgS.vertices[snd].seq[0] >= 0]
        if first["node"] == recv and not jitter_free:
            t0 = B[(recv, first["seq"])]["ts"]
            cnt = int(((ta > t0 - d_static + 1e-7) & (ta <= t0 - dmin + 1e-7)).sum())
            if cnt > out["T"]["ext"]:
                mech = "trainable_window_short_under_sender_jitter"
                first = dict(first, outputs_in_gap=cnt, extension=out["T"]["ext"], min_output_spacing_periods=float(onp.diff(ta).min() * rate))
        items.append(dict(status="violated", key=key, nontrivial=nontriv, witness=dict(mechanism=mech, first_divergence=first, divergences=len(ev), config=cfg, spec=spec,
                                                                                     near_tie=near)))
    else:
        items.append(dict(status="held", key=key, nontrivial=nontriv))
    return dict(items=items, counters=dict(counters), samples=[dict(config=cfg, spec_digest=dg, compared=counters["steps_compared"], messages_shifted_by_d=differs_from_min,
                                                                 extension=out["T"]["ext"])])


def plan(tier, seed):
    n = 24 if tier == "quick" else 320  # about half of the cases are non-trivial (d moves at least one message to another step)
    ways = ["create", "init_delays", "init_delays_lower", "alpha", "saturate_hi", "saturate_lo", "create", "init_delays_lower"]
    return [dict(name=f"g-{i}", spec_seed=seed * 100153 + i, way=ways[i % len(ways)], jitter_free=(i % 4 != 3), timeout=600) for i in range(n)]
