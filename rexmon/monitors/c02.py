"""C02 — simulated-clock episodes are deterministic across thread schedules, speed and driving API (differential monitor)."""
import random
import sys
from collections import Counter

import numpy as onp

RULE = ("one witness graph (G_live, and G_wide with chronic overruns and blocking+skip; stochastic delays, all policies) x one initial graph state, run 6-7 times on the same AsyncGraph "
        "object plus once on a fresh object: unperturbed baseline, seeded pauses at submit/task_start/task_end hooks, one starved worker "
        "(10x slower), pauses of the user thread inside start(), real-time factors {0,5,20,50}, run() vs reset()/step() driving, "
        "switch interval 1e-5, and (thorough) LINE-level yield injection; every run's record and supervisor observations are compared "
        "field by field with the baseline on the common prefix; one evaluation = one perturbed run compared; non-trivial = graph with "
        ">=3 worker threads whose runs produced >=2 distinct interleaving fingerprints and >=30 compared steps; distinct by spec digest "
        "x perturbation")
MIN_NONTRIVIAL = {"quick": 30, "thorough": 400}
DECIDING = ["steps_compared", "messages_compared", "fingerprints"]
ASSUMPTIONS = ["the interleaving fingerprint is the global order of the first 200 task_start hook events",
               "other nodes' live step states returned by run()/step() are racy by design and not compared (DESIGN.md 3.6)"]
LEVEL = "exploration"
WORKERS = 12


def _leaves(tree, prefix=""):
    """flatten a record subtree into {path: ndarray}"""
    import jax

    out = {}
    flat = jax.tree_util.tree_flatten_with_path(tree)[0]
    for path, leaf in flat:
        out[prefix + jax.tree_util.keystr(path)] = onp.asarray(leaf)
    return out


STEP_FIELDS = ["seq", "ts_start", "ts_end", "delay", "rng", "state", "inputs", "output", "ts_scheduled", "ts_max", "phase"]
MSG_FIELDS = ["seq_out", "seq_in", "ts_sent", "ts_recv", "delay"]


def canon(a):
    a = onp.asarray(a)
    if a.dtype.kind == "f":
        a = onp.where(a == 0, 0.0, a)
    if a.dtype.kind in "iu" and a.ndim >= 1:
        pass
    return a


def compare_records(ra, rb, stats):
    """Common-prefix comparison of two episode records (numpy). Returns list of mismatches."""
    V = []
    for n in ra.nodes:
        sa, sb = ra.nodes[n].steps, rb.nodes[n].steps
        K = min(len(sa.seq), len(sb.seq))
        stats["steps_compared"] += K
        for f in STEP_FIELDS:
            la, lb = _leaves(getattr(sa, f), f), _leaves(getattr(sb, f), f)
            if set(la) != set(lb):
                V.append(dict(clause="record_structure", node=n, field=f))
                continue
            for k in la:
                a, b = canon(la[k]), canon(lb[k])
                kk = min(K, len(a), len(b))
                a, b = a[:kk], b[:kk]
                if k.endswith(".seq") and "inputs" in k:  # window sequence numbers: all negatives are one class
                    a, b = onp.where(a < 0, -1, a), onp.where(b < 0, -1, b)
                if a.shape != b.shape or not onp.array_equal(a, b):
                    idx = int(onp.argmax((a != b).reshape(kk, -1).any(axis=1))) if a.shape == b.shape and kk else -1
                    V.append(dict(clause="step_field_differs", node=n, field=k, step=idx,
                                  a=a[idx].tolist() if idx >= 0 else None, b=b[idx].tolist() if idx >= 0 else None))
                    break
        for m in ra.nodes[n].inputs:
            ma, mb = ra.nodes[n].inputs[m].messages, rb.nodes[n].inputs[m].messages
            # common prefix: messages consumed by steps < K
            ia, ib = onp.asarray(ma.seq_in), onp.asarray(mb.seq_in)
            Ma, Mb = int((ia < K).sum()), int((ib < K).sum())
            if Ma != Mb:
                V.append(dict(clause="message_count_differs", conn=f"{m}->{n}", a=Ma, b=Mb, upto_step=K))
                continue
            stats["messages_compared"] += Ma
            for f in MSG_FIELDS:
                a, b = canon(getattr(ma, f))[:Ma], canon(getattr(mb, f))[:Mb]
                if not onp.array_equal(a, b):
                    j = int(onp.argmax(a != b))
                    V.append(dict(clause="message_field_differs", conn=f"{m}->{n}", field=f, j=j, a=a[j].tolist(), b=b[j].tolist()))
                    break
    return V


def compare_obs(oa, ob, stats):
    V = []
    for i, (a, b) in enumerate(zip(oa, ob)):
        stats["observations_compared"] += 1
        a = dict(a)
        b = dict(b)
        for d in (a, b):
            d["ts"] = 0.0 if d["ts"] == 0 else d["ts"]
            for k, v in d["inputs"].items():
                v["seq"] = [x if x >= 0 else -1 for x in v["seq"]]
                v["ts_sent"] = [0.0 if x == 0 else x for x in v["ts_sent"]]
                v["ts_recv"] = [0.0 if x == 0 else x for x in v["ts_recv"]]
        if a != b:
            diff = [k for k in a if a[k] != b[k]]
            V.append(dict(clause="supervisor_observation_differs", i=i, fields=diff, a={k: a[k] for k in diff if k != "inputs"}, b={k: b[k] for k in diff if k != "inputs"}))
            break
    return V


def run_case(case):
    from rexmon import drive_async as D
    from rexmon import specs as S

    rnd = random.Random(case["spec_seed"])
    # communication jitter up to several sender periods in half of the graphs: the FIFO clamp is then active and the order in which
    # predicted timestamps and real messages pass through a connection matters
    cs = rnd.choice([0.02, 0.08, 0.15])
    # "wide": G_wide minus G_live (chronic overruns, blocking+skip; supported since repairs 5.1-m/n), else G_live
    spec = S.rand_wide(case["spec_seed"], n_min=2, n_max=5, comm_scale=cs) if case.get("wide") else S.rand_live(case["spec_seed"], n_min=2, n_max=5, comm_scale=cs)
    dg = S.digest(spec)
    n_steps = case.get("steps", 14)
    rtfs = [0, 0, 0, 5, 20, 50]
    items, counters, samples = [], Counter(), []
    owners = [n["name"] for n in spec["nodes"]] + [f"{c['inp']}/{c['out']}" for c in spec["conns"]]
    variants = [
        dict(name="baseline", api="run"),
        dict(name="pauses", api="run", p_sleep=0.3),
        dict(name="starved", api="run", p_sleep=0.3, slow=rnd.choice(owners)),
        dict(name="starved-connection", api="run", p_sleep=0.2, slow=rnd.choice([o for o in owners if "/" in o] or owners)),
        dict(name="step-api", api="step", p_sleep=0.2),
        dict(name="start-pauses", api=rnd.choice(["run", "step"]), p_sleep=0.1, user_sleep=(0.7, 0.03)),
        dict(name="rtf", api="run", rtf=rnd.choice([5, 20, 50]), p_sleep=0.1),
        dict(name="switch", api=rnd.choice(["run", "step"]), p_sleep=0.3, switch=1e-5),
    ]
    if case.get("line_yield"):
        variants.append(dict(name="line-yield", api="run", line=0.05))
    graphs = {}

    def graph_for(rtf, fresh=False):
        k = (rtf, fresh)
        if k not in graphs:
            graphs[k] = D.build_graph(spec, clock="sim", rtf=rtf, max_records=300, init_seed=case["spec_seed"])
        return graphs[k]

    base = None
    fps = set()
    threads = len(owners)
    variants.append(dict(name="fresh-object", api="run", p_sleep=0.2, fresh=True))
    for vi, v in enumerate(variants):
        rtf = v.get("rtf", 0)
        g, nodes, sup, gs0 = graph_for(rtf, v.get("fresh", False))
        mon = D.Monitor(seed=case["spec_seed"] * 31 + vi, p_sleep=v.get("p_sleep", 0.0), max_sleep=0.004, slow_owner=v.get("slow"),
                        user_sleep=v.get("user_sleep")).install()
        old = sys.getswitchinterval()
        if v.get("switch"):
            sys.setswitchinterval(v["switch"])
        try:
            if v.get("line"):
                with D.LineYield(seed=case["spec_seed"], p=v["line"]) as ly:
                    r = D.call_with_deadline(D.run_episode, 120, g, nodes, sup, gs0, v["api"], max(4, n_steps // 2), 42)
                counters["line_events"] += ly.lines
                counters["line_yields"] += ly.yields
            else:
                r = D.call_with_deadline(D.run_episode, 90, g, nodes, sup, gs0, v["api"], n_steps, 42)
        except D.Stall as e:
            items.append(dict(status="inconclusive", key=f"{dg}/{v['name']}", nontrivial=False, note=f"stall: {e}"))
            counters["stalls"] += 1
            break
        except TypeError as e:
            items.append(dict(status="rejected", key=f"{dg}/{v['name']}", nontrivial=False, note=f"empty record {e}"[:100]))
            continue
        finally:
            sys.setswitchinterval(old)
        fps.add(mon.fingerprint())
        counters["sleeps_injected"] += mon.sleeps
        errs = list(mon.errors)
        if base is None:
            base = r
            if errs:
                items.append(dict(status="violated", key=f"{dg}/baseline", nontrivial=True, witness=dict(mechanism="worker_exception", errors=errs[:2], spec=spec)))
            continue
        stats = Counter()
        V = compare_records(base["record"], r["record"], stats)
        if v["api"] == base["mode"]:
            V += compare_obs(base["obs"], r["obs"], stats)
        if errs:
            V.append(dict(clause="worker_exception", errors=errs[:2]))
        counters.update(stats)
        nontriv = threads >= 3 and len(fps) >= 2 and stats["steps_compared"] >= 30
        key = f"{dg}/{v['name']}"
        if V:
            items.append(dict(status="violated", key=key, nontrivial=nontriv, witness=dict(mechanism=V[0]["clause"], violations=V[:4], variant=v, spec=spec,
                                                                                         features=S.features(spec))))
        else:
            items.append(dict(status="held", key=key, nontrivial=nontriv))
    counters["fingerprints"] += len(fps)
    samples.append(dict(spec_digest=dg, features=S.features(spec), worker_threads=threads, variants=[v["name"] for v in variants], fingerprints=sorted(fps)[:4]))
    return dict(items=items, counters=dict(counters), samples=samples)


def plan(tier, seed):
    n = 24 if tier == "quick" else 400
    cases = [dict(name=f"g-{i}", spec_seed=seed * 100069 + i, steps=12 if tier == "quick" else 20, timeout=420) for i in range(n)]
    cases += [dict(name=f"w-{i}", wide=True, spec_seed=seed * 100069 + 9000 + i, steps=12 if tier == "quick" else 20, timeout=420) for i in range(6 if tier == "quick" else 100)]
    if tier == "thorough":
        cases += [dict(name=f"ly-{i}", spec_seed=seed * 100069 + 6000 + i, steps=12, line_yield=True, timeout=600) for i in range(40)]
    return cases
