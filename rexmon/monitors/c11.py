"""C11 — interpolated delays sample the sender's signal at (step start time - delay) (float64 reference model beside the real call)."""
import math
import random
from collections import Counter

import numpy as onp

RULE = ("per configuration (interp in {linear, linear_real_only}, window 1-4, sender rate, [min,max] incl. non-integer rate*(max-min), payload "
        "scalar/vector/matrix, float32/int32, uniform or late-jittered sender spacing) a sender message stream is generated and, for many "
        "(step start time, delay) pairs, the extended input window is built the way the compiled runtime builds it (last window+extension "
        "messages that arrived under the minimal delay, dummies before) and handed to the real TrainableDist.apply_delay under jit; the "
        "result is compared with a float64 piecewise-linear signal through the WHOLE stream evaluated at ts_start - d (newest entry) and at "
        "ts_start - d - m/rate (m-th older entry, uniform spacing), bracketing bounds, coincidence with the zero-order-hold result at "
        "message times, and autodiff vs signal slope incl. delays exactly at min and max; one evaluation = one (config, ts_start, d) call; "
        "non-trivial = call whose bracketing messages are both real and differ in value; distinct by config digest x ts_start x d")
RULE += ' Built later: receive stamps as the runtime provides them (ts_sent + min); a non-finite reading in a buffered message that is not a neighbour of any evaluation point (uniform spacing) must not leak; linear_real_only entries anchored to a dummy slot show the default output.'
MIN_NONTRIVIAL = {"quick": 400, "thorough": 10000}
DECIDING = ["newest_checked", "older_checked", "gradients_checked"]
ASSUMPTIONS = ["tolerance 1e-4 x signal range + slope x 1e-6 (float32 times)", "integer payloads: within 1 of the real-valued result (the code truncates)",
               "with late-jittered spacing only the newest-entry and bracketing clauses are checked (older entries are one sender period apart only "
               "for uniform spacing)"]
LEVEL = "exploration"
WORKERS = 14


def run_case(case):
    import jax
    import jax.numpy as jnp

    from rex.base import InputState, TrainableDist
    from rexmon import specs as S

    rnd = random.Random(case["spec_seed"])
    nrng = onp.random.default_rng(case["spec_seed"])
    interp = case.get("interp") or rnd.choice(["linear", "linear_real_only"])
    W = rnd.randint(1, 4)
    rate = rnd.choice([5, 10, 13, 20, 25, 50])
    dmin = round(rnd.choice([0.0, 0.0, rnd.uniform(0, 0.5) / rate]), 5)
    span = rnd.choice([0.5, 1.0, 1.25, 1.5, 2.0, 2.4, 2.5, 3.0, rnd.uniform(0.2, 3.2)]) / rate
    dmax = round(dmin + span, 5)
    shape = rnd.choice([(), (), (3,), (2, 2)])
    dtype = onp.int32 if rnd.random() < 0.15 else onp.float32
    uniform = rnd.random() < 0.7
    cfg = dict(interp=interp, window=W, rate=rate, min=dmin, max=dmax, shape=list(shape), dtype=onp.dtype(dtype).name, uniform=uniform)
    dg = S.digest(cfg)
    dist0 = TrainableDist.create(dmin, dmin, dmax, interp=interp)
    ext = dist0.window(rate)
    cum = W + ext
    M = 40
    phase = rnd.uniform(0.0, 0.05)
    ts_sent = onp.arange(M) / rate + phase
    if not uniform:
        ts_sent = ts_sent + onp.cumsum(nrng.uniform(0, 0.4 / rate, size=M) * (nrng.random(M) < 0.3))
    ts_sent = ts_sent.astype(onp.float32).astype(onp.float64)
    nfeat = int(onp.prod(shape)) if shape else 1
    amp = 100.0 if dtype == onp.int32 else rnd.choice([1.0, 5.0])
    sig = amp * (onp.sin(3.1 * ts_sent[:, None] + onp.arange(nfeat)[None, :]) + 0.3 * nrng.standard_normal((M, nfeat)))
    data_all = sig.reshape((M,) + tuple(shape)).astype(dtype)
    default = onp.full(shape, -7, dtype=dtype)
    rng_range = float(data_all.max() - data_all.min()) + 1e-9
    tol_v = 1e-4 * rng_range + (1.0 if dtype == onp.int32 else 0.0)
    max_slope = float(onp.max(onp.abs(onp.diff(data_all.reshape(M, -1).astype(float), axis=0)) / onp.diff(ts_sent)[:, None]))

    def make_apply(fn_interp):
        dist = TrainableDist.create(dmin, dmin, dmax, interp=fn_interp)

        def f(alpha, seq, tsent, trecv, data, ts_start):
            dd = dist.replace(alpha=alpha)
            inp = InputState.from_outputs(seq=seq, ts_sent=tsent, ts_recv=trecv, outputs=data, delay_dist=dd, is_data=True)
            return dd.apply_delay(rate, inp, ts_start)
        return f

    apply_j = jax.jit(make_apply(interp))
    zoh_j = jax.jit(make_apply("zoh"))

    def window_for(ts_start):
        arrived = onp.nonzero(ts_sent + dmin <= ts_start + 1e-12)[0]
        sel = arrived[-cum:] if len(arrived) else arrived
        pad = cum - len(sel)
        seq = onp.concatenate([-onp.ones(pad, onp.int32), sel.astype(onp.int32)])
        tsent = onp.concatenate([onp.zeros(pad), ts_sent[sel]]).astype(onp.float32)
        data = onp.concatenate([onp.broadcast_to(default, (pad,) + tuple(shape)), data_all[sel]]).astype(dtype)
        # receive stamps as the compiled runtime provides them: arrival under the minimal delay for real messages, 0 for dummies
        trecv = onp.concatenate([onp.zeros(pad), ts_sent[sel] + dmin]).astype(onp.float32)
        return seq, tsent, trecv, data, arrived

    def reference(t_eval, d, arrived, n_dummy):
        """float64 signal in the send-time domain through all ARRIVED stream messages (+ dummies if the window is not full)."""
        xs = list(ts_sent[arrived])
        ys = list(data_all[arrived].reshape(len(arrived), nfeat).astype(float))
        if n_dummy > 0:
            x_d = (0.0 - d) if interp == "linear" else -1e9
            xs = [x_d] + xs
            ys = [default.reshape(-1).astype(float)] + ys
        xs = onp.array(xs)
        ys = onp.array(ys)
        return onp.array([onp.interp(t_eval, xs, ys[:, c]) for c in range(ys.shape[1])]), xs, ys

    items, counters = [], Counter()
    V = []
    n_calls = case.get("calls", 120)
    nontriv_keys = 0
    for ci in range(n_calls):
        # step start: anywhere, incl. before all messages and after the last
        ts_start = float(onp.float32(rnd.uniform(-0.02, ts_sent[-1] + 0.1)))
        seq, tsent, trecv, data, arrived = window_for(ts_start)
        n_dummy = int((seq < 0).sum())
        kind = rnd.random()
        if kind < 0.12:
            d = rnd.choice([dmin, dmax])
        elif kind < 0.3 and len(arrived):
            j = rnd.choice(list(arrived[-(ext + 2):]))  # coincide with a message time: ts_start - d == ts_sent_j
            d = ts_start - ts_sent[j]
            if not (dmin <= d <= dmax):
                d = rnd.uniform(dmin, dmax)
            elif rnd.random() < 0.5:
                d = min(max(d + rnd.choice([-1e-6, 1e-6]), dmin), dmax)
        else:
            d = rnd.uniform(dmin, dmax)
        alpha = onp.float32((d - dmin) / (dmax - dmin))
        d_eff = dmin + float(alpha) * (dmax - dmin)
        # every 5th call: a non-finite reading in a buffered message that is NOT a neighbour of any evaluation point must not leak
        poisoned = None
        if uniform and dtype == onp.float32 and ci % 5 == 4 and len(arrived) >= cum and n_dummy == 0:  # (evaluation points are only known for uniform spacing)
            te_min = ts_start - d_eff - (W - 1) / rate - 1e-6
            far = [wi for wi in range(cum) if tsent[wi] < te_min - 1.01 * max(onp.diff(ts_sent).max(), 1.0 / rate)]
            if far:
                poisoned = far[0]
                data = data.copy()
                data[poisoned] = rnd.choice([onp.inf, -onp.inf, onp.nan])
        out = apply_j(alpha, seq, tsent, trecv, data, onp.float32(ts_start))
        got = onp.asarray(out.data).reshape(W, -1).astype(float)
        counters["calls"] += 1
        if got.shape[0] != W or onp.asarray(out.seq).shape[0] != W:
            V.append(dict(clause="window_length", got=int(got.shape[0]), window=W))
            break
        if len(arrived) == 0:
            # nothing has arrived yet: every entry must be the default output
            counters["all_dummy_checked"] += 1
            if onp.max(onp.abs(got - default.reshape(-1).astype(float)[None])) > tol_v:
                V.append(dict(clause="default_window_altered", cfg=cfg, ts_start=ts_start, got=got.tolist()))
            continue
        if poisoned is not None:
            counters["poisoned_history_checked"] += 1
            if not onp.isfinite(got).all():
                V.append(dict(clause="non_finite_far_message_leaks_into_seen_values", cfg=cfg, ts_start=ts_start, d=d_eff, poisoned_slot=poisoned, got=got.tolist()))
            data = data.copy()
            data[poisoned] = data_all[arrived[-cum:]][poisoned]
        if interp == "linear_real_only" and 0 < n_dummy < cum and W >= 2 and len(arrived) >= 1:
            # entries of the delayed window that are anchored to a dummy slot show the producer's default output
            arr_real = ts_sent[arrived[-(cum - n_dummy):]] + d_eff
            if onp.min(onp.abs(arr_real - ts_start)) > 1e-5:
                idx_max = n_dummy + int((arr_real <= ts_start).sum())
                for j_ in range(W):
                    slot = idx_max - W + j_
                    if 0 <= slot < n_dummy and idx_max - 1 >= n_dummy:
                        counters["dummy_anchored_entries_checked"] += 1
                        if onp.max(onp.abs(got[j_] - default.reshape(-1).astype(float))) > tol_v + 1e-3 * rng_range:
                            V.append(dict(clause="entry_anchored_to_dummy_not_default_output", cfg=cfg, ts_start=ts_start, d=d_eff, entry=j_, got=got[j_].tolist(), n_dummy=n_dummy, idx_max=idx_max))
                            break
        ref_new, xs, ys = reference(ts_start - d_eff, d_eff, arrived, n_dummy)
        tol = tol_v + max_slope * 2e-6 + (1e-3 * rng_range if n_dummy and interp == "linear" else 0)
        counters["newest_checked"] += 1
        # neighbours real and different?
        inside = len(arrived) >= 2 and ts_sent[arrived[0]] < ts_start - d_eff < ts_sent[arrived[-1]]
        if inside:
            nontriv_keys += 1
        if n_dummy and interp == "linear_real_only" and len(arrived) == 0:
            pass  # only dummies: nothing to interpolate
        elif onp.max(onp.abs(got[-1] - ref_new)) > tol:
            V.append(dict(clause="newest_entry_not_signal_at_ts_start_minus_delay", cfg=cfg, ts_start=ts_start, d=d_eff, got=got[-1].tolist(), expected=ref_new.tolist(),
                          window_seq=seq.tolist(), n_dummy=n_dummy, ext=ext))
        # bracketing bounds against the window's own data
        wd = data.reshape(cum, -1).astype(float)
        if (got < wd.min(axis=0) - tol).any() or (got > wd.max(axis=0) + tol).any():
            V.append(dict(clause="value_outside_bracketing_messages", cfg=cfg, ts_start=ts_start, d=d_eff))
        if uniform and n_dummy == 0 and len(arrived) >= cum:
            for m in range(1, W):
                ref_m, _, _ = reference(ts_start - d_eff - m / rate, d_eff, arrived, 0)
                counters["older_checked"] += 1
                if onp.max(onp.abs(got[-1 - m] - ref_m)) > tol + max_slope * 4e-6:
                    V.append(dict(clause="older_entry_not_one_sender_period_apart", cfg=cfg, ts_start=ts_start, d=d_eff, m=m, got=got[-1 - m].tolist(), expected=ref_m.tolist()))
                    break
        # coincidence with zero-order hold when the delayed arrival coincides with a message
        hit = [j for j in arrived if abs((ts_start - d_eff) - ts_sent[j]) < 1e-9]
        if hit and n_dummy == 0:
            z = zoh_j(alpha, seq, tsent, trecv, data, onp.float32(ts_start))
            zv = onp.asarray(z.data).reshape(W, -1).astype(float)
            counters["zoh_coincidences_checked"] += 1
            # exact coincidence is a float32 tie inside rex (ts_sent + d > ts_start may round either way): the zero-order-hold
            # result may legitimately be the previous message; the interpolated value must equal the hit message either way
            j_hit = hit[-1]
            prev_val = data_all[j_hit - 1].reshape(-1).astype(float) if j_hit > 0 else None
            zoh_is_prev = prev_val is not None and onp.max(onp.abs(zv[-1] - prev_val)) <= tol_v
            if onp.max(onp.abs(got[-1] - data_all[j_hit].reshape(-1).astype(float))) > tol + max_slope * 1e-5:
                V.append(dict(clause="interpolated_value_at_message_time_not_the_message", cfg=cfg, ts_start=ts_start, d=d_eff, linear=got[-1].tolist(),
                              message=data_all[j_hit].reshape(-1).tolist()))
            elif onp.max(onp.abs(zv[-1] - got[-1])) > tol + max_slope * 1e-5 and not zoh_is_prev:
                V.append(dict(clause="differs_from_zoh_at_message_time", cfg=cfg, ts_start=ts_start, d=d_eff, linear=got[-1].tolist(), zoh=zv[-1].tolist()))
        # gradient wrt the delay parameter (scalar float payloads)
        if dtype == onp.float32 and shape == () and ci % 3 == 0 and len(arrived) >= 2:
            te = ts_start - d_eff
            k = onp.searchsorted(xs, te)
            at_bound = d in (dmin, dmax)
            if 0 < k < len(xs) and min(te - xs[k - 1], xs[k] - te) > 2e-3 / rate * 10:
                slope = (ys[k, 0] - ys[k - 1, 0]) / (xs[k] - xs[k - 1])
                if not (n_dummy and interp == "linear" and k <= 1):
                    g = float(jax.grad(lambda a: apply_j(a, seq, tsent, trecv, data, onp.float32(ts_start)).data[-1])(jnp.float32(alpha)))
                    exp_g = -slope * (dmax - dmin)
                    counters["gradients_checked"] += 1
                    counters["gradients_at_bounds_checked"] += int(at_bound)
                    if abs(g - exp_g) > 2e-2 * (abs(exp_g) + 1e-3 * rng_range):
                        V.append(dict(clause="gradient_not_signal_slope", cfg=cfg, ts_start=ts_start, d=d_eff, autodiff=g, expected=exp_g, at_bound=at_bound))
        if len(V) >= 4:
            break
    status = "violated" if V else "held"
    it = dict(status=status, key=dg, nontrivial=nontriv_keys >= 5)
    if V:
        it["witness"] = dict(mechanism=V[0]["clause"], violations=V[:3], config=cfg, extension=ext)
    # the evaluations of this batch: one item per call would bloat the result; report calls as separate keyed items compactly
    items.append(it)
    extra = [dict(status="held", key=f"{dg}/{i}", nontrivial=True) for i in range(max(0, nontriv_keys - 1))] if not V else []
    counters["nontrivial_calls"] = nontriv_keys
    return dict(items=items + extra, counters=dict(counters), samples=[dict(config=cfg, extension=ext, calls=counters["calls"], nontrivial_calls=nontriv_keys)])


def plan(tier, seed):
    n, calls = (32, 250) if tier == "quick" else (500, 400)
    return [dict(name=f"cfg-{i}", spec_seed=seed * 100169 + i, interp=["linear", "linear_real_only"][i % 2], calls=calls, timeout=600) for i in range(n)]
