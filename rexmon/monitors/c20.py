"""C20 — the exported policy computes the same action as the trained actor (differential monitor)."""
import random
from collections import Counter

import numpy as onp

RULE = ("(a) synthetic PPOResults (every second one followed in the same process by a sibling with identical layer sizes and another activation): ActorCritic networks of depth 1-4, width 1-128, the four activations, with randomly perturbed parameters (non-zero "
        "biases and log_std), random observation-normalisation statistics (or none) and squash/clip action scaling with different bounds per action "
        "dimension; (b) real ppo.train results with tiny budgets on a scripted environment (normalisation on/off, squash on/off), whose log_std has "
        "drifted from 0; for 40 observations per result, in range and up to 1e4x outside the training range (clip active), "
        "PPOResult.policy.get_action(obs) is compared with an independent re-evaluation ActorCritic.apply(params, clip((obs-mean)/sqrt(var+1e-8))) "
        "-> mean -> squash/clip, and get_action(obs, rng) with MultivariateNormalDiag(mean, exp(log_std)).sample(seed=rng) -> squash/clip; one "
        "evaluation = one (result, observation); non-trivial = observation with >=1 normalised component outside the clip range or a sampled "
        "action; distinct by result digest x observation index")
RULE += ' Built later: policy and reference both compiled (tolerance 2e-5 of the range); near-constant observation components (training variance far below 1e-6).'
MIN_NONTRIVIAL = {"quick": 200, "thorough": 5000}
DECIDING = ["deterministic_actions_compared", "sampled_actions_compared"]
ASSUMPTIONS = ["STATE_INDEPENDENT_STD=True only (the property's quantifier)", "tolerance 2e-5 of the action range: policy and reference are both jit-compiled float32 evaluations of the same network (an eager reference differed by up to 2.9e-5 relative from the jitted policy on a depth-4 gelu net, so the reference is compiled too)"]
LEVEL = "exploration"
WORKERS = 10


def reference_action(network, params, obs, norm, low, high, squash, rng=None):
    import jax.numpy as jnp

    x = jnp.asarray(obs, jnp.float32)
    if norm is not None:
        mean, var, clip = norm
        x = jnp.clip((x - mean) / jnp.sqrt(var + 1e-8), -clip, clip)
    pi, _ = network.apply(params, x)
    a = pi.mean() if rng is None else pi.sample(seed=rng)
    if squash:
        a = 0.5 * (jnp.tanh(a) + 1.0) * (high - low) + low
    else:
        a = jnp.clip(a, low, high)
    return onp.asarray(a), onp.asarray(x)


def reference_action_j(network, params, obs, norm, low, high, squash, rng=None):
    """traceable version of reference_action (both sides are then compiled by XLA; eager-vs-jit rounding does not enter)"""
    import jax.numpy as jnp

    x = jnp.asarray(obs, jnp.float32)
    if norm is not None:
        mean, var, clip = norm
        x = jnp.clip((x - mean) / jnp.sqrt(var + 1e-8), -clip, clip)
    pi, _ = network.apply(params, x)
    a = pi.mean() if rng is None else pi.sample(seed=rng)
    a = 0.5 * (jnp.tanh(a) + 1.0) * (high - low) + low if squash else jnp.clip(a, low, high)
    return a, x


def compare_policy(policy, network, params, norm, low, high, squash, obs_list, stats, rnd, tag):
    import jax

    V = []
    nontriv = 0
    get = jax.jit(lambda o: policy.get_action(o))
    get_s = jax.jit(lambda o, k: policy.get_action(o, k))
    rng_range = onp.asarray(high - low, float)
    ref_j = jax.jit(lambda o: reference_action_j(network, params, o, norm, low, high, squash))
    ref_js = jax.jit(lambda o, k: reference_action_j(network, params, o, norm, low, high, squash, rng=k))
    for i, obs in enumerate(obs_list):
        ref, xnorm = (onp.asarray(x_) for x_ in ref_j(obs))
        got = onp.asarray(get(obs))
        stats["deterministic_actions_compared"] += 1
        clipped = norm is not None and (onp.abs(xnorm) >= norm[2] - 1e-6).any()
        nontriv += int(clipped)
        if got.shape != ref.shape or (onp.abs(got - ref) > 2e-5 * rng_range + 3e-6).any():
            V.append(dict(clause="deterministic_action_differs_from_actor", obs_index=i, policy=got.tolist(), actor=ref.tolist(), clip_active=bool(clipped), where=tag))
            break
        if i % 2 == 0:
            k = jax.random.PRNGKey(rnd.randrange(1 << 30))
            refs = onp.asarray(ref_js(obs, k)[0])
            gots = onp.asarray(get_s(obs, k))
            stats["sampled_actions_compared"] += 1
            nontriv += 1
            if (onp.abs(gots - refs) > 2e-5 * rng_range + 3e-6).any():
                V.append(dict(clause="sampled_action_differs_from_actor_gaussian", obs_index=i, policy=gots.tolist(), actor=refs.tolist(), where=tag))
                break
    return V, nontriv


def make_obs(rnd, nrng, mean, std, n):
    out = []
    for i in range(n):
        k = rnd.random()
        if k < 0.5:
            o = mean + std * nrng.standard_normal(mean.shape)
        elif k < 0.8:
            o = mean + std * nrng.standard_normal(mean.shape) * rnd.choice([12, 50, 1e3, 1e4])
        else:
            o = mean + std * nrng.standard_normal(mean.shape)
            j = rnd.randrange(len(o))
            o[j] = mean[j] + std[j] * rnd.choice([-1, 1]) * rnd.choice([10.5, 30, 1e4])
        out.append(o.astype(onp.float32))
    return out


def synthetic_case(rnd, nrng, stats, force=None):
    import jax
    import jax.numpy as jnp
    import optax
    from flax.core import FrozenDict
    from flax.training.train_state import TrainState

    from rex import base, ppo, rl
    from rex.actor_critic import Actor, ActorCritic, Critic

    depth = rnd.randint(1, 4)
    width = rnd.choice([1, 2, 7, 16, 64, 128])
    act = rnd.choice(["tanh", "relu", "gelu", "softplus"])
    obs_dim, act_dim = rnd.randint(1, 6), rnd.randint(1, 3)
    if force is not None:
        # sibling result: identical layer sizes, another activation, evaluated in the same process right after the first one
        depth, width, obs_dim, act_dim = force["depth"], force["width"], force["obs_dim"], force["act_dim"]
        act = rnd.choice([a for a in ["tanh", "relu", "gelu", "softplus"] if a != force["activation"]])
    squash = rnd.random() < 0.5
    normalize = rnd.random() < 0.7
    cfg = ppo.Config(NUM_HIDDEN_LAYERS=depth, NUM_HIDDEN_UNITS=width, HIDDEN_ACTIVATION=act, SQUASH=squash, NORMALIZE_ENV=normalize, NUM_ENVS=3)
    actor = Actor(act_dim, num_hidden_units=width, num_hidden_layers=depth, hidden_activation=act, kernel_init_type=cfg.KERNEL_INIT_TYPE, state_independent_std=True)
    critic = Critic(num_hidden_units=width, num_hidden_layers=depth, hidden_activation=act, kernel_init_type=cfg.KERNEL_INIT_TYPE)
    network = ActorCritic(actor=actor, critic=critic)
    key = jax.random.PRNGKey(rnd.randrange(1 << 30))
    params = network.init(key, jnp.zeros((obs_dim,)))
    leaves, td = jax.tree_util.tree_flatten(params)
    keys = jax.random.split(key, len(leaves))
    params = jax.tree_util.tree_unflatten(td, [l + 0.3 * jax.random.normal(k, l.shape) for l, k in zip(leaves, keys)])  # non-zero biases and log_std
    low = jnp.asarray(nrng.uniform(-3, -0.2, act_dim), jnp.float32)
    high = jnp.asarray(nrng.uniform(0.2, 3, act_dim), jnp.float32)
    mean = (nrng.uniform(-5, 5, obs_dim) * rnd.choice([1, 1, 100])).astype(onp.float32)
    std = nrng.uniform(0.1, 3, obs_dim).astype(onp.float32)
    if rnd.random() < 0.5:  # a near-constant observation component (bias / set-point feature): training variance far below 1e-6
        std[rnd.randrange(obs_dim)] = onp.float32(10.0 ** rnd.uniform(-6, -3.5))
    aux = {"act_scaling": rl.SquashState(low=jnp.tile(low[None], (3, 1)), high=jnp.tile(high[None], (3, 1)), squash=squash)}
    norm = None
    if normalize:
        aux["norm_obs"] = rl.NormalizeVec(mean=jnp.asarray(mean), var=jnp.asarray(std**2), count=jnp.float32(1000.0), return_val=None, clip=10.0)
        norm = (jnp.asarray(mean), jnp.asarray(std**2), 10.0)
    ts = TrainState.create(apply_fn=network.apply, params=params, tx=optax.sgd(0.0))
    env_state = base.GraphState(aux=FrozenDict(aux))
    res = ppo.PPOResult(config=cfg, runner_state=ppo.RunnerState(train_state=ts, env_state=env_state, last_obs=None, rng=key), metrics={})
    policy = res.policy
    obs_list = make_obs(rnd, nrng, mean, std, 40)
    desc = dict(kind="synthetic", depth=depth, width=width, activation=act, obs_dim=obs_dim, act_dim=act_dim, squash=squash, normalize=normalize)
    V, nontriv = compare_policy(policy, network, params, norm, low, high, squash, obs_list, stats, rnd, "synthetic")
    return V, nontriv, desc


def trained_case(rnd, nrng, stats, seed):
    import jax
    import jax.numpy as jnp

    from rex import ppo
    from rex.actor_critic import Actor, ActorCritic, Critic
    from rexmon.toyenv import ScriptEnv, make_script

    r, term, trunc = make_script(rnd, 24)
    act_dim = rnd.randint(1, 2)
    low = [round(rnd.uniform(-2, -0.3), 2) for _ in range(act_dim)]
    high = [round(rnd.uniform(0.3, 2), 2) for _ in range(act_dim)]
    off = rnd.choice([0.0, 5.0])
    env = ScriptEnv(r, term, trunc, obs_dim=3, act_low=low, act_high=high, obs_offset=off, obs_scale=1.0, noise=0.3)
    depth, width, act = rnd.randint(1, 3), rnd.choice([8, 32]), rnd.choice(["tanh", "relu", "gelu", "softplus"])
    squash, normalize = rnd.random() < 0.5, rnd.random() < 0.7
    cfg = ppo.Config(LR=3e-3, NUM_ENVS=8, NUM_STEPS=16, TOTAL_TIMESTEPS=8 * 16 * 12, UPDATE_EPOCHS=2, NUM_MINIBATCHES=2, NUM_HIDDEN_LAYERS=depth, NUM_HIDDEN_UNITS=width,
                     HIDDEN_ACTIVATION=act, SQUASH=squash, NORMALIZE_ENV=normalize, NUM_EVAL_ENVS=2, EVAL_FREQ=1, VERBOSE=False, ENT_COEF=0.05)
    res = jax.jit(lambda k: ppo.train(env, cfg, k))(jax.random.PRNGKey(seed))
    jax.block_until_ready(res.runner_state.train_state.params)
    params = res.runner_state.train_state.params
    log_std = onp.asarray(params["params"]["actor"]["log_std"])
    stats["trained_results"] += 1
    stats["max_abs_log_std_x1000"] = max(stats.get("max_abs_log_std_x1000", 0), int(1000 * float(onp.abs(log_std).max())))
    actor = Actor(act_dim, num_hidden_units=width, num_hidden_layers=depth, hidden_activation=act, kernel_init_type=cfg.KERNEL_INIT_TYPE, state_independent_std=True)
    critic = Critic(num_hidden_units=width, num_hidden_layers=depth, hidden_activation=act, kernel_init_type=cfg.KERNEL_INIT_TYPE)
    network = ActorCritic(actor=actor, critic=critic)
    norm = None
    mean, std = onp.full(3, off, onp.float32), onp.ones(3, onp.float32)
    if normalize:
        ns = res.runner_state.env_state.aux["norm_obs"]
        norm = (jnp.asarray(ns.mean), jnp.asarray(ns.var), 10.0)
        mean, std = onp.asarray(ns.mean), onp.sqrt(onp.asarray(ns.var))
    obs_list = make_obs(rnd, nrng, mean, std, 40)
    desc = dict(kind="trained", depth=depth, width=width, activation=act, squash=squash, normalize=normalize, log_std=log_std.tolist(), act_dim=act_dim)
    V, nontriv = compare_policy(res.policy, network, params, norm, jnp.asarray(low, jnp.float32), jnp.asarray(high, jnp.float32), squash, obs_list, stats, rnd, "trained")
    return V, nontriv, desc


def run_case(case):
    from rexmon import specs as S

    rnd = random.Random(case["spec_seed"])
    nrng = onp.random.default_rng(case["spec_seed"])
    items, counters, samples = [], Counter(), []
    jobs = []
    for i in range(case.get("n_syn", 6)):
        jobs.append(("synthetic", None))
        if i % 2 == 0:
            jobs.append(("sibling", None))
    jobs += [("trained", case["spec_seed"] * 13 + i) for i in range(case.get("n_train", 0))]
    last_desc = None
    for t, (kind, seed) in enumerate(jobs):
        st = Counter()
        try:
            if kind == "synthetic":
                V, nontriv, desc = synthetic_case(rnd, nrng, st)
                last_desc = desc
            elif kind == "sibling":
                V, nontriv, desc = synthetic_case(rnd, nrng, st, force=last_desc)
                desc = dict(desc, sibling_of_previous=True)
            else:
                V, nontriv, desc = trained_case(rnd, nrng, st, seed)
        except Exception as ex:
            import traceback

            V, nontriv, desc = [dict(clause="policy_or_training_raised", error=f"{type(ex).__name__}: {ex}"[:200], tb=traceback.format_exc()[-800:])], 0, dict(kind=kind)
        for k, v in st.items():
            counters[k] = max(counters[k], v) if k.startswith("max_") else counters[k] + v
        key = f"{case['spec_seed']}/{t}/{kind}"
        if V:
            items.append(dict(status="violated", key=key, nontrivial=True, witness=dict(mechanism=V[0]["clause"], violations=V[:3], result=desc)))
        else:
            n_obs = st["deterministic_actions_compared"]
            items += [dict(status="held", key=f"{key}/{i}", nontrivial=(i < nontriv)) for i in range(max(1, n_obs))]
        if t == 0 or kind == "trained":
            samples.append(desc)
    return dict(items=items, counters=dict(counters), samples=samples[:3])


def plan(tier, seed):
    if tier == "quick":
        cases = [dict(name=f"syn-{i}", spec_seed=seed * 100279 + i, n_syn=8, n_train=0, timeout=600) for i in range(10)]
        cases += [dict(name=f"train-{i}", spec_seed=seed * 100279 + 500 + i, n_syn=0, n_train=1, timeout=900) for i in range(3)]
    else:
        cases = [dict(name=f"syn-{i}", spec_seed=seed * 100279 + i, n_syn=12, n_train=0, timeout=900) for i in range(120)]
        cases += [dict(name=f"train-{i}", spec_seed=seed * 100279 + 500 + i, n_syn=0, n_train=1, timeout=1200) for i in range(14)]
    return cases
