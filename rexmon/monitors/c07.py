"""C07 — the compiled schedule runs every graph vertex once, in dependency order (offline schedule checker + executed order)."""
import random
from collections import Counter

import numpy as onp

RULE = ("computation graphs from (a) AsyncGraph recordings of random G_all graphs incl. zero-delay ties and one node >=11x faster than the "
        "supervisor, as ragged 2-3 episode stacks, and (b) generate_graphs on G_gen specs (windows 1-4, trainable extensions); compiled in "
        "every supergraph mode x prune (two per case) and, for MCS, with a user S_init taken from a graph compiled for a different episode "
        "set; the public Graph.timings arrays are checked against an independent recomputation (windows, required set, order, producers "
        "first, supervisor closes partition p, slot fields) and one jit(rollout) per graph checks the executed order in the witness host "
        "trace; one evaluation = one (graph set, mode, prune, episode); non-trivial = stack with different vertex counts per episode or "
        ">=1 masked slot; distinct by spec digest x mode x prune x episode")
MIN_NONTRIVIAL = {"quick": 16, "thorough": 250}
DECIDING = ["scheduled_vertices", "window_entries_checked", "executed_steps_ordered"]
ASSUMPTIONS = ["required ⊆ scheduled: the matcher may additionally place vertices nobody requires (allowed, but they must obey every other rule)",
               "with prune=False a vertex is required if it ends no later than the start of some supervisor step inside the horizon and does not "
               "depend on that step"]
LEVEL = "exploration"
WORKERS = 12


def expected_windows(raw, nodes, e):
    W = {}
    TS = {}
    for (n1, n2), ed in raw.edges.items():
        c = nodes[n1].outputs[n2]
        w = c.window + c.delay_dist.window(nodes[n1].rate)
        so, si, tr = ed.seq_out[e], ed.seq_in[e], ed.ts_recv[e]
        v2 = raw.vertices[n2]
        valid = [(int(so[j]), int(si[j]), float(tr[j])) for j in range(len(so)) if so[j] >= 0 and si[j] >= 0]
        for k in v2.seq[e]:
            if k < 0:
                continue
            got = [(a, t) for a, b, t in valid if b <= k]
            win = ([(-1, 0.0)] * w + got)[-w:]
            W[(n1, n2, int(k))] = [a for a, _ in win]
            TS[(n1, n2, int(k))] = [t for _, t in win]
    return W, TS


def check_schedule(G, nodes, sup, prune, stats):
    import jax
    import networkx as nx

    raw = jax.tree_util.tree_map(onp.array, G.graphs_raw)
    T = jax.tree_util.tree_map(onp.array, G.timings)
    E = raw.vertices[sup.name].seq.shape[0]
    P = next(iter(T.slots.values())).run.shape[1]
    max_gen = max(s.generation for s in T.slots.values())
    per_eps = []
    n_sup_vertices = [int((raw.vertices[sup.name].seq[e] >= 0).sum()) for e in range(E)]
    vcounts = [tuple(int((v.seq[e] >= 0).sum()) for v in raw.vertices.values()) for e in range(E)]
    for e in range(E):
        V = []

        def bad(clause, **kw):
            V.append(dict(clause=clause, episode=e, **kw))

        if P != min(n_sup_vertices):
            bad("horizon_not_shortest_episode", partitions=P, supervisor_steps=n_sup_vertices)
        W, WTS = expected_windows(raw, nodes, e)
        D = nx.DiGraph()
        for n, v in raw.vertices.items():
            for k in v.seq[e]:
                if k < 0:
                    continue
                D.add_node((n, int(k)), ts_start=float(v.ts_start[e][k]), ts_end=float(v.ts_end[e][k]))
                if k > 0:
                    D.add_edge((n, int(k) - 1), (n, int(k)))
        for (n1, n2, k), win in W.items():
            for s in win:
                if s >= 0:
                    D.add_edge((n1, s), (n2, k))
        sups = [(sup.name, p) for p in range(P) if (sup.name, p) in D]
        req = set()
        for s in sups:
            req |= nx.ancestors(D, s) | {s}
        if not prune:
            allsup = sorted([x for x in D if x[0] == sup.name], key=lambda x: D.nodes[x]["ts_start"])
            for x in D:
                if x in req:
                    continue
                for s in allsup:
                    if D.nodes[x]["ts_end"] <= D.nodes[s]["ts_start"] and not nx.has_path(D, s, x):
                        if s[1] < P:
                            req |= {x} | nx.ancestors(D, x)
                        break
        sched = {}
        masked = 0
        for sname, sl in T.slots.items():
            for p in range(P):
                if sl.run[e, p]:
                    key = (sl.kind, int(sl.seq[e, p]))
                    if key in sched:
                        bad("vertex_scheduled_twice", vertex=key, first=sched[key][:2], second=(p, sl.generation))
                    sched[key] = (p, sl.generation, sname)
                else:
                    masked += 1
        stats["scheduled_vertices"] += len(sched)
        stats["masked_slots"] += masked
        stats["extra_vertices"] += len(set(sched) - req)
        stats["required_vertices"] += len(req)
        if not req <= set(sched):
            missing = req - set(sched)
            # known finding (DESIGN.md 5.2-b): with prune=False on a ragged stack, a vertex that finishes before a supervisor step inside
            # the horizon but is an ancestor only of supervisor steps BEYOND the horizon is scheduled with those later steps.
            beyond = [x for x in D if x[0] == sup.name and x[1] >= P]
            anc_beyond = set()
            for sx in beyond:
                anc_beyond |= nx.ancestors(D, sx)
            late = {x for x in missing if (not prune) and x in anc_beyond and not any(x in nx.ancestors(D, s_) for s_ in sups)}
            other = missing - late
            if other:
                bad("required_vertex_not_scheduled", missing=sorted(other)[:6], prune=prune)
            else:
                bad("prune_false_vertex_needed_only_beyond_horizon", missing=sorted(late)[:6], horizon=P, supervisor_steps_in_episode=n_sup_vertices[e])
        for p in range(P):
            key = (sup.name, p)
            if key not in sched:
                bad("supervisor_step_missing_in_partition", partition=p)
            elif sched[key][0] != p or sched[key][1] != max_gen:
                bad("supervisor_step_does_not_close_its_partition", step=p, partition=sched[key][0], generation=sched[key][1], last_generation=max_gen)
        for (n, k), (p, g, sname) in sched.items():
            sl = T.slots[sname]
            v = raw.vertices[n]
            if (n, k) not in D:
                bad("scheduled_vertex_not_in_graph", vertex=(n, k))
                continue
            if abs(sl.ts_start[e, p] - v.ts_start[e][k]) > 1e-6 or abs(sl.ts_end[e, p] - v.ts_end[e][k]) > 1e-6:
                bad("slot_times_not_vertex_times", vertex=(n, k), slot=(float(sl.ts_start[e, p]), float(sl.ts_end[e, p])),
                    vertex_times=(float(v.ts_start[e][k]), float(v.ts_end[e][k])))
            if k > 0 and (n, k - 1) in sched and not sched[(n, k - 1)][:2] < (p, g):
                bad("node_steps_out_of_sequence_order", vertex=(n, k), prev=sched[(n, k - 1)][:2], this=(p, g))
            for n1, win in sl.windows.items():
                exp = W[(n1, n, k)]
                got = [int(x) if x >= 0 else -1 for x in win.seq[e, p]]
                stats["window_entries_checked"] += len(got)
                if got != exp:
                    bad("slot_window_not_last_consumed_messages", vertex=(n, k), producer=n1, got=got, expected=exp)
                    continue
                src_te = raw.vertices[n1].ts_end[e]
                for wi, s in enumerate(got):
                    if s >= 0:
                        if abs(float(win.ts_sent[e, p][wi]) - float(src_te[s])) > 1e-6 or abs(float(win.ts_recv[e, p][wi]) - WTS[(n1, n, k)][wi]) > 1e-6:
                            bad("slot_window_times", vertex=(n, k), producer=n1, slot=wi)
                        if (n1, s) not in sched:
                            bad("window_producer_not_scheduled", vertex=(n, k), producer=(n1, s))
                        elif not sched[(n1, s)][:2] < (p, g):
                            bad("window_producer_not_strictly_earlier", vertex=(n, k), producer=(n1, s), producer_at=sched[(n1, s)][:2], consumer_at=(p, g))
        V.sort(key=lambda v: v["clause"] == "prune_false_vertex_needed_only_beyond_horizon")
        per_eps.append((V, masked, sched))
    ragged = len(set(vcounts)) > 1
    return per_eps, ragged, P


def check_executed_order(trace, sched, nodes, N, sup_name, stats):
    """trace: decoded host trace of jit(rollout) for one episode, in execution order."""
    V = []
    idx2name = {n.idx: k for k, n in nodes.items()}
    pos = {}
    last = {}
    for i, d in enumerate(trace):
        n, k = idx2name[d["idx"]], d["seq"]
        if (n, k) in pos:
            V.append(dict(clause="executed_twice", vertex=(n, k)))
        pos[(n, k)] = i
        if n in last and k <= last[n]:
            V.append(dict(clause="executed_out_of_sequence_order", node=n, seq=k, after=last[n]))
        last[n] = k
        stats["executed_steps_ordered"] += 1
        for inp, rows in d["inputs"].items():
            prod = nodes[n].inputs[inp].output_node.name
            for r in rows:
                if r["seq"] >= 0 and (prod, r["seq"]) not in pos:
                    V.append(dict(clause="consumer_executed_before_producer", vertex=(n, k), producer=(prod, r["seq"])))
        if len(V) > 5:
            break
    expected = {k for k, (p, g, s) in sched.items() if p < N and not (k[0] == sup_name and k[1] >= N)}
    miss = expected - set(pos)
    if miss:
        V.append(dict(clause="scheduled_vertex_not_executed", missing=sorted(miss)[:6]))
    return V


def run_case(case):
    import jax

    from rexmon import drive_async as D
    from rexmon import drive_comp as C
    from rexmon import specs as S
    from rexmon import witness as W
    from rexmon.monitors import c01

    rnd = random.Random(case["spec_seed"])
    items, counters, samples = [], Counter(), []
    gs0 = None
    if case["kind"] == "rec":
        spec = c01.gen_spec(dict(spec_seed=case["spec_seed"], small=True))
        if case.get("tie"):
            spec = S.rand_spec(case["spec_seed"], zero_bias=1.0, n_min=3, n_max=4, p_fwd_skip=0.0)
        n_eps = rnd.choice([2, 3])
        lengths = [rnd.randint(4, 7) + 3 * i for i in range(n_eps)]
        rnd.shuffle(lengths)
        try:
            ex = C.record_experiment(spec, lengths=lengths, init_seed=case["spec_seed"], trace="io", max_records=600)
        except (C.Rejected, ValueError, NotImplementedError) as e:
            return dict(items=[dict(status="rejected", key=S.digest(spec), nontrivial=False, note=f"{type(e).__name__}: {e}"[:140])], counters={"rejected_record": 1})
        except D.Stall:
            return dict(items=[dict(status="inconclusive", key=S.digest(spec), nontrivial=False, note="async stall while recording")], counters={"stalls": 1})
        D.Monitor.uninstall()
        nodes, sup, gs0 = ex["nodes"], ex["sup"], ex["gs0"]
        _, cg = C.experiment_graph(ex["episodes"])
        src = dict(kind="rec", lengths=lengths)
    else:
        spec = S.rand_gen(case["spec_seed"], n_min=2, n_max=5)
        if case.get("logger"):
            # a sink that only listens to the supervisor with zero delays (its steps tie exactly with the supervisor steps they depend on),
            # next to a sensor with ordinary delays that keeps ticking after the last supervisor step
            r = rnd.choice([5, 10, 20])
            spec = dict(seed=case["spec_seed"], supervisor="sup", logger=True, nodes=[
                dict(name="sensor", rate=r * rnd.choice([1, 2]), delay=["det", 0.01], scheduling="F", advance=False),
                dict(name="sup", rate=r, delay=["det", 0.0], scheduling="F", advance=False),
                dict(name="logger", rate=r, delay=["det", 0.0], scheduling="F", advance=False)],
                conns=[dict(out="sensor", inp="sup", window=rnd.randint(1, 2), skip=False, blocking=False, jitter="L", delay=["det", 0.01]),
                       dict(out="sup", inp="logger", window=1, skip=False, blocking=False, jitter="L", delay=["det", 0.0])])
        elif rnd.random() < 0.4:  # a trainable connection: window extension
            c = rnd.choice([c for c in spec["conns"]])
            rate = [n for n in spec["nodes"] if n["name"] == c["out"]][0]["rate"]
            mx = round(rnd.uniform(0.5, 2.5) / rate, 4)
            c["delay"] = ["train", round(rnd.uniform(0, mx), 4), 0.0, mx, "zoh"]
            spec["trainable"] = True
        nodes, sup, cg = C.generated_graph(spec, ts_max=rnd.choice([0.6, 1.0]), num_episodes=rnd.choice([2, 3]), seed=case["spec_seed"])
        src = dict(kind="gen")
        if rnd.random() < 0.25:  # a single, un-batched episode (1-D arrays): Graph() must treat it as a stack of one
            cg = jax.tree_util.tree_map(lambda x: x[0], cg)
            src["unbatched"] = True
    dg = S.digest(spec)
    pairs = rnd.sample([(m, p) for m in ("mcs", "gen", "top") for p in (True, False)], 2)
    if spec.get("fast_ratio"):
        pairs[0] = (rnd.choice(["gen", "top"]), pairs[0][1])
    if case.get("tie") or case.get("logger"):
        pairs = [("mcs", False), (rnd.choice(["gen", "top"]), False)]
    S_prev = None
    for mode, prune in pairs:
        kw = {}
        s_init = False
        if mode == "mcs" and S_prev is None and rnd.random() < 0.5:
            # user-supplied initial supergraph: compiled for a different episode set (first episode only)
            try:
                if src.get("unbatched"):
                    raise C.Rejected("unbatched")
                G0 = C.build_compiled(nodes, sup, jax.tree_util.tree_map(lambda x: x[:1], cg), mode="mcs", prune=prune)
                kw["S_init"] = G0.S
                s_init = True
            except C.Rejected:
                pass
        try:
            G = C.build_compiled(nodes, sup, cg, mode=mode, prune=prune, **kw)
        except C.CompileError as e:
            diag = C.diagnose_compile_error(nodes, sup, cg)
            tie = (not prune) and any(d["windowed_graph_acyclic"] and not d["connected_graph_acyclic"] for d in diag)
            items.append(dict(status="violated", key=f"{dg}/{mode}/{prune}", nontrivial=True,
                              witness=dict(mechanism="prune_false_cycle_on_zero_delay_tie" if tie else "compile_raises", error=str(e)[:200], diagnosis=diag,
                                           spec=spec, mode=mode, prune=prune, source=src)))
            continue
        except C.Rejected as e:
            items.append(dict(status="rejected", key=f"{dg}/{mode}/{prune}", nontrivial=False, note=str(e)[:120]))
            counters["rejected_graph"] += 1
            continue
        stats = Counter()
        per_eps, ragged, P = check_schedule(G, nodes, sup, prune, stats)
        counters.update(stats)
        # executed order: one jit(rollout) of a random episode
        e_run = rnd.randrange(len(per_eps))
        c0 = G.init(jax.random.PRNGKey(1), starting_eps=e_run)
        W.trace_clear()
        out = jax.jit(G.rollout)(c0)
        jax.block_until_ready(out)
        jax.effects_barrier()
        tr = W.decode_trace(W.trace_snapshot(), S.input_layout(nodes))
        st2 = Counter()
        Vx = check_executed_order(tr, per_eps[e_run][2], nodes, G.max_steps, sup.name, st2)
        counters.update(st2)
        for e, (V, masked, sched) in enumerate(per_eps):
            VV = list(V) + (Vx if e == e_run else [])
            key = f"{dg}/{mode}/{prune}/{e}" + ("/S_init" if s_init else "")
            nontriv = ragged or masked > 0
            if VV:
                items.append(dict(status="violated", key=key, nontrivial=nontriv, witness=dict(mechanism=VV[0]["clause"], violations=VV[:4], spec=spec, mode=mode,
                                                                                             prune=prune, S_init=s_init, source=src, partitions=P)))
            else:
                items.append(dict(status="held", key=key, nontrivial=nontriv))
        samples.append(dict(spec_digest=dg, source=src, mode=mode, prune=prune, S_init=s_init, episodes=len(per_eps), partitions=P, slots=len(G.timings.slots),
                            ragged=ragged, features=S.features(spec)))
    return dict(items=items, counters=dict(counters), samples=samples[:1])


def plan(tier, seed):
    nr, ng = (14, 14) if tier == "quick" else (300, 300)
    cases = [dict(name=f"rec-{i}", kind="rec", spec_seed=seed * 100109 + i, timeout=600) for i in range(nr)]
    cases += [dict(name=f"tie-{i}", kind="rec", tie=True, spec_seed=seed * 100109 + 6000 + i, timeout=600) for i in range(6 if tier == "quick" else 60)]
    cases += [dict(name=f"logger-{i}", kind="gen", logger=True, spec_seed=seed * 100109 + 8000 + i, timeout=600) for i in range(3 if tier == "quick" else 30)]
    cases += [dict(name=f"gen-{i}", kind="gen", spec_seed=seed * 100109 + 3000 + i, timeout=600) for i in range(ng)]
    return cases
