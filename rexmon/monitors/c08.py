"""C08 — input windows read exactly the scheduled messages from the output buffers (payload identity + ring-buffer replay)."""
import random
from collections import Counter

import numpy as onp

RULE = ("compiled witness graphs from generate_graphs (rate ratios up to 1:12, windows 1-4, trainable window extensions, short schedules in "
        "which a window never fills) and from AsyncGraph recordings; automatic buffer sizes, admissible user buffer_sizes (>= minimum) "
        "and extra_padding 0-3; random starting episode and starting step; executed with jit(rollout)/reset+step: every window entry a "
        "step received (witness host trace) must be the payload (producer, seq, hash) the schedule names, or the producer's default output "
        "for negative entries; in addition the schedule is replayed statically against the ring sizes (write seq % size at the end of a "
        "generation, read at its start) for the automatic and 6 random admissible size/padding configurations; one evaluation = one "
        "(graph, buffer config, episode, starting step) execution or one static replay; non-trivial = >=1 connection with ring size >= 2 "
        "and >=1 wrap-around; distinct by spec digest x mode x config x episode x start")
RULE += " Built later: a size below some reader's minimum must be refused."
MIN_NONTRIVIAL = {"quick": 16, "thorough": 250}
DECIDING = ["entries_checked", "static_reads_checked"]
ASSUMPTIONS = ["entries that refer to producer steps skipped by a late start (starting_step > 0) are excluded: they were never emitted in that run",
               "minimality of the automatic buffer sizes is not required"]
LEVEL = "exploration"
WORKERS = 12


def static_replay(T, sizes, E, P, stats):
    """Replay writes/reads of the schedule against ring buffers of the given sizes. T: timings (numpy)."""
    V = []
    gens = {}
    for sn, sl in T.slots.items():
        gens.setdefault(sl.generation, []).append((sn, sl))
    order = [gens[g] for g in sorted(gens)]
    for e in range(E):
        ring = {k: [None] * sz for k, sz in sizes.items()}  # None == default output still in place
        wraps = 0
        for p in range(P):
            for slots in order:
                writes = []
                for sn, sl in slots:
                    if not sl.run[e, p]:
                        continue
                    for n1, win in sl.windows.items():
                        sz = sizes[n1]
                        for s in win.seq[e, p]:
                            s = int(s)
                            stats["static_reads_checked"] += 1
                            held = ring[n1][s % sz]
                            if s >= 0 and held != s:
                                V.append(dict(clause="read_hits_overwritten_or_unwritten_slot", episode=e, partition=p, reader=(sl.kind, int(sl.seq[e, p])),
                                              producer=n1, wanted=s, held=held, size=sz))
                            elif s < 0 and held is not None:
                                V.append(dict(clause="default_entry_reads_overwritten_slot", episode=e, partition=p, reader=(sl.kind, int(sl.seq[e, p])),
                                              producer=n1, wanted=s, held=held, size=sz))
                    writes.append((sl.kind, int(sl.seq[e, p])))
                for k, s in writes:
                    if s >= sizes[k]:
                        wraps += 1
                    ring[k][s % sizes[k]] = s
                if len(V) > 4:
                    return V, wraps
        stats["wraparounds"] += wraps
    return V, stats["wraparounds"]


def run_case(case):
    import jax

    from rexmon import drive_async as D
    from rexmon import drive_comp as C
    from rexmon import specs as S
    from rexmon import witness as W

    rnd = random.Random(case["spec_seed"])
    items, counters, samples = [], Counter(), []
    gs0 = None
    if case["kind"] == "rec":
        spec = S.rand_live(case["spec_seed"], n_min=3, n_max=4)
        try:
            ex = C.record_experiment(spec, lengths=[rnd.randint(6, 9), rnd.randint(6, 12)], init_seed=case["spec_seed"], trace="io", max_records=600)
        except (C.Rejected, D.Stall) as e:
            return dict(items=[dict(status="rejected", key=S.digest(spec), nontrivial=False, note=str(e)[:120])], counters={"rejected_record": 1})
        D.Monitor.uninstall()
        nodes, sup, gs0 = ex["nodes"], ex["sup"], ex["gs0"]
        _, cg = C.experiment_graph(ex["episodes"])
    else:
        spec = S.rand_gen(case["spec_seed"], n_min=2, n_max=4, max_window=4)
        flavour = case.get("flavour") or rnd.choice(["plain", "ratio", "short", "train"])
        sup_n = [n for n in spec["nodes"] if n["name"] == spec["supervisor"]][0]
        others = [n for n in spec["nodes"] if n["name"] != spec["supervisor"]]
        ts_max = rnd.choice([0.6, 1.0])
        if flavour == "ratio":
            sup_n["rate"] = rnd.choice([5, 8])
            f = rnd.choice(others)
            f["rate"] = sup_n["rate"] * (rnd.choice([11, 12, 13]) if case.get("flavour") == "ratio" else rnd.choice([4, 7, 10, 12]))
            f["delay"] = ["det", round(0.3 / f["rate"], 5)]
        elif flavour == "short":  # a slow producer whose consumers' windows never fill
            f = rnd.choice(others)
            f["rate"] = rnd.choice([2, 3])
            f["delay"] = ["det", 0.01]
            for c in spec["conns"]:
                if c["out"] == f["name"]:
                    c["window"] = rnd.choice([3, 4])
            ts_max = rnd.choice([0.5, 0.8])
        elif flavour == "train":
            c = rnd.choice(spec["conns"])
            rate = [n for n in spec["nodes"] if n["name"] == c["out"]][0]["rate"]
            mx = round(rnd.uniform(0.5, 2.5) / rate, 4)
            c["delay"] = ["train", round(rnd.uniform(0, mx), 4), 0.0, mx, "zoh"]
        spec["flavour"] = flavour
        nodes, sup, cg = C.generated_graph(spec, ts_max=ts_max, num_episodes=2, seed=case["spec_seed"])
    dg = S.digest(spec)
    mode = case.get("mode") or rnd.choice(["mcs", "gen", "top"])
    prune = rnd.random() < 0.6
    try:
        G_auto = C.build_compiled(nodes, sup, cg, mode=mode, prune=prune)
    except C.Rejected as e:
        return dict(items=[dict(status="rejected", key=dg, nontrivial=False, note=str(e)[:120])], counters={"rejected_graph": 1})
    T = C.timings_np(G_auto)
    E = G_auto.max_eps
    P = next(iter(T.slots.values())).run.shape[-1]
    auto = {k: (max(v) if len(v) else 1) for k, v in G_auto._buffer_sizes.items()}
    try:
        min_sizes = {k: (max(v) if len(v) else 1) for k, v in T_get_sizes(G_auto).items()}
    except KeyError as e:
        return dict(items=[dict(status="rejected", key=dg, nontrivial=False, note=f"get_buffer_sizes KeyError {e}")], counters={"rejected_graph": 1})
    # ---- static replay: automatic sizes + random admissible configurations
    configs = [("auto", dict(auto), 0)]
    for i in range(6):
        user = {k: v + rnd.choice([0, 0, 1, 2, 3]) for k, v in min_sizes.items()}
        configs.append((f"user{i}", user, rnd.choice([0, 0, 1, 3])))
    for name, sizes, pad in configs:
        eff = {k: (v + pad if len(G_auto._buffer_sizes[k]) > 0 else max(1, pad)) for k, v in sizes.items()}
        st = Counter()
        V, wraps = static_replay(T, eff, E, P, st)
        counters.update(st)
        nontriv = any(v >= 2 for v in eff.values()) and wraps > 0
        key = f"{dg}/{mode}/{prune}/static/{name}"
        if V:
            items.append(dict(status="violated", key=key, nontrivial=nontriv, witness=dict(mechanism=V[0]["clause"], violations=V[:3], spec=spec, mode=mode, prune=prune,
                                                                                         sizes=eff, config=name)))
        else:
            items.append(dict(status="held", key=key, nontrivial=nontriv))
    # ---- inadmissible user sizes (below the minimum of some reader) must be refused, not silently accepted
    per_reader = {k: list(v) for k, v in G_auto._buffer_sizes.items()}
    cand = [k for k, v in per_reader.items() if len(v) and max(v) >= 2]
    if cand:
        k_bad = rnd.choice(cand)
        small = int(rnd.randint(1, max(per_reader[k_bad]) - 1))
        counters["inadmissible_sizes_tried"] += 1
        try:
            G_bad = C.build_compiled(nodes, sup, cg, mode=mode, prune=prune, buffer_sizes={k_bad: small})
            accepted = True
        except (C.CompileError, AssertionError):
            accepted = False
        except C.Rejected:
            accepted = False
        if accepted:
            eff = {k: (max(v) if len(v) else 1) for k, v in G_bad._buffer_sizes.items()}
            st = Counter()
            Vb, _ = static_replay(T, eff, E, P, st)
            items.append(dict(status="violated", key=f"{dg}/{mode}/{prune}/inadmissible-accepted", nontrivial=True,
                              witness=dict(mechanism="inadmissible_buffer_size_accepted", producer=k_bad, size=small, per_reader_minimum=per_reader[k_bad],
                                           replay_violations=Vb[:2], spec=spec, mode=mode, prune=prune)))
        else:
            items.append(dict(status="held", key=f"{dg}/{mode}/{prune}/inadmissible-refused", nontrivial=True))
    # ---- executed check with one chosen configuration
    name, user, pad = rnd.choice(configs)
    kw = {}
    if name != "auto":
        kw = dict(buffer_sizes={k: int(v) for k, v in user.items()}, extra_padding=int(pad))
    try:
        G = C.build_compiled(nodes, sup, cg, mode=mode, prune=prune, **kw) if kw else G_auto
    except C.Rejected as e:
        return dict(items=items + [dict(status="rejected", key=dg + "/exec", nontrivial=False, note=str(e)[:120])], counters=dict(counters))
    except AssertionError as e:
        items.append(dict(status="violated", key=f"{dg}/{mode}/{prune}/admissible-sizes-refused", nontrivial=True,
                          witness=dict(mechanism="admissible_buffer_sizes_refused", error=str(e)[:200], spec=spec, sizes=user, minimum=min_sizes)))
        return dict(items=items, counters=dict(counters), samples=samples)
    sched, _ = C.schedule(G)
    idx2name = {n.idx: k for k, n in nodes.items()}
    layout = S.input_layout(nodes)
    Tn = C.timings_np(G)
    buf_sizes = None
    N = G.max_steps
    starts = [(rnd.randrange(E), 0), (rnd.randrange(E), rnd.randint(1, max(1, N - 2)))]
    for (e, s0) in starts:
        c0 = G.init(jax.random.PRNGKey(case["spec_seed"]), starting_eps=e, starting_step=s0)
        if gs0 is not None:
            c0 = c0.replace(rng=gs0.rng, params=gs0.params, state=gs0.state)
        if buf_sizes is None:
            buf_sizes = {k: int(jax.tree_util.tree_leaves(v)[0].shape[0]) for k, v in c0.buffer.items()}
        W.trace_clear()
        out = jax.jit(lambda g: G.rollout(g, max_steps=N - s0))(c0)
        jax.block_until_ready(out)
        jax.effects_barrier()
        tr = W.decode_trace(W.trace_snapshot(), layout)
        emitted = {(idx2name[d["idx"]], d["seq"]): d["out_h"] for d in tr}
        slot_of = {(r["kind"], r["seq"]): r for r in sched[e]}
        V = []
        st = Counter()
        for d in tr:
            n, k = idx2name[d["idx"]], d["seq"]
            row = slot_of.get((n, k))
            if row is None:
                V.append(dict(clause="executed_step_not_in_schedule", vertex=(n, k)))
                continue
            sl = Tn.slots[row["slot"]]
            for inp, rows in d["inputs"].items():
                c = nodes[n].inputs[inp]
                prod = c.output_node
                full = [int(x) if x >= 0 else -1 for x in sl.windows[prod.name].seq[e, row["partition"]]]
                got = [r["seq"] for r in rows]
                ext = c.delay_dist.window(prod.rate)
                if ext == 0 and got != full:
                    V.append(dict(clause="window_seqs_not_scheduled_ones", vertex=(n, k), producer=prod.name, got=got, scheduled=full))
                    continue
                if ext > 0 and not all(g in full for g in got):
                    V.append(dict(clause="window_seqs_not_scheduled_ones", vertex=(n, k), producer=prod.name, got=got, scheduled=full))
                    continue
                for r in rows:
                    st["entries_checked"] += 1
                    if r["seq"] >= 0:
                        if (prod.name, r["seq"]) not in emitted:
                            st["entries_before_start_excluded"] += 1
                            continue
                        exp = (prod.idx, r["seq"], emitted[(prod.name, r["seq"])])
                        if r["d_vec"] != W.vec_of(r["d_h"]):
                            V.append(dict(clause="vector_payload_not_the_scheduled_message", vertex=(n, k), producer=prod.name, scheduled_seq=r["seq"], got=r["d_vec"],
                                          expected=W.vec_of(r["d_h"])))
                        if (r["d_src"], r["d_seq"], r["d_h"]) != exp:
                            V.append(dict(clause="payload_not_the_scheduled_message", vertex=(n, k), producer=prod.name, scheduled_seq=r["seq"],
                                          got=(r["d_src"], r["d_seq"], r["d_h"]), expected=exp))
                    else:
                        st["default_entries_checked"] += 1
                        if (r["d_src"], r["d_seq"], r["d_nonce"], r["d_h"]) != (prod.idx, -1, -1, 0) or r["d_vec"] != [0, 0, 0]:
                            V.append(dict(clause="default_entry_not_default_output", vertex=(n, k), producer=prod.name,
                                          got=(r["d_src"], r["d_seq"], r["d_nonce"], r["d_h"])))
            if len(V) > 4:
                break
        counters.update(st)
        wrap = any(k[1] >= buf_sizes.get(k[0], 1) for k in emitted)
        nontriv = any(v >= 2 for v in buf_sizes.values()) and wrap
        key = f"{dg}/{mode}/{prune}/exec/{name}/{e}/{s0}"
        if V:
            items.append(dict(status="violated", key=key, nontrivial=nontriv, witness=dict(mechanism=V[0]["clause"], violations=V[:3], spec=spec, mode=mode, prune=prune,
                                                                                         config=name, buffer_sizes=buf_sizes, episode=e, starting_step=s0)))
        else:
            items.append(dict(status="held", key=key, nontrivial=nontriv))
    samples.append(dict(spec_digest=dg, flavour=spec.get("flavour", "recorded"), mode=mode, prune=prune, config=name, buffer_sizes=buf_sizes, starts=starts,
                        partitions=P, min_sizes=min_sizes))
    return dict(items=items, counters=dict(counters), samples=samples)


def T_get_sizes(G):
    return G.timings.get_buffer_sizes()


def plan(tier, seed):
    ng, nr = (20, 6) if tier == "quick" else (300, 80)
    modes = ["mcs", "gen", "top"]
    cases = [dict(name=f"gen-{i}", kind="gen", spec_seed=seed * 100129 + i, mode=modes[i % 3], timeout=600) for i in range(ng)]
    cases += [dict(name=f"ratio-{i}", kind="gen", flavour="ratio", spec_seed=seed * 100129 + 2000 + i, mode=["gen", "top"][i % 2], timeout=600) for i in range(4 if tier == "quick" else 40)]
    cases += [dict(name=f"rec-{i}", kind="rec", spec_seed=seed * 100129 + 4000 + i, mode=modes[i % 3], timeout=600) for i in range(nr)]
    return cases
