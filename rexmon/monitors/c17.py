"""C17 — parameter transforms are invertible and compose in order (round-trip and order monitor over generated pytrees)."""
import random
from collections import Counter

import numpy as onp

RULE = ("generated parameter pytrees (nested dicts/lists, leaves of different shapes, None leaves for Extend/Shared) with bounds min<max of very "
        "different widths (half-width from 1e-8 to 1e3, offset/half-width ratio <= 10); checked: Denormalize inv(apply(x)) = x, apply(-1)=min, "
        "apply(+1)=max, monotone on a grid; Exponential and Identity round trips; Shared round trip on its domain; Chain.apply equals applying "
        "the members first-to-last and Chain.inv last-to-first for flat chains AND chains containing nested chains at every position "
        "(non-commuting members, compared with a member-by-member fold over the user's nesting); Extend fills exactly the None leaves from the "
        "base tree and returns supplied leaves bit-identical; one evaluation = one generated tree x one transform family; non-trivial = tree "
        "with >=3 leaves of >=2 distinct shapes; distinct by tree/bounds digest x family")
RULE += ' Built later: integer-typed bounds; log-space values down to -40; base trees that contain None leaves.'
MIN_NONTRIVIAL = {"quick": 400, "thorough": 10000}
DECIDING = ["roundtrips_checked", "chains_checked"]
ASSUMPTIONS = ["float32: tolerance rtol 1e-5 plus 8 eps32 |offset|/scale for the normalised value", "Extend.inv raises under the installed JAX (None is no "
               "longer a tree prefix); the property only asks Extend to extend, so Extend appears in apply-direction checks only"]
LEVEL = "exploration"
WORKERS = 14
EPS32 = 1.2e-7


def close(a, b, rtol=1e-5, atol=1e-6):
    import jax

    la, ta = jax.tree_util.tree_flatten(a)
    lb, tb = jax.tree_util.tree_flatten(b)
    if ta != tb:
        return False, "structure"
    worst = 0.0
    for x, y in zip(la, lb):
        x, y = onp.asarray(x, float), onp.asarray(y, float)
        if x.shape != y.shape:
            return False, "shape"
        err = onp.abs(x - y) - (atol + rtol * onp.abs(y))
        if (err > 0).any() or not onp.isfinite(x).all():
            return False, dict(got=x.ravel()[:4].tolist(), expected=y.ravel()[:4].tolist())
    return True, None


def gen_tree(rng, rnd, leaf_fn):
    shapes = [(), (3,), (2, 2), (1,), (4,), (2, 3)]
    def leaf():
        return leaf_fn(rnd.choice(shapes))
    kind = rnd.choice(["flat", "nested", "list"])
    if kind == "flat":
        return {f"p{i}": leaf() for i in range(rnd.randint(1, 4))}
    if kind == "nested":
        return {"a": {"x": leaf(), "y": leaf()}, "b": leaf(), "c": {"d": {"e": leaf()}}}
    return {"a": [leaf(), leaf()], "b": leaf(), "c": (leaf(),)}


def run_case(case):
    import jax
    import jax.numpy as jnp

    from rex.base import Chain, Denormalize, Exponential, Extend, Identity, Shared
    from rexmon import specs as S

    rnd = random.Random(case["spec_seed"])
    rng = onp.random.default_rng(case["spec_seed"])
    items, counters, samples = [], Counter(), []
    tmap = jax.tree_util.tree_map
    for t in range(case.get("n", 80)):
        fam = ["denorm", "exp_id", "chain", "extend", "shared"][t % 5]
        V = []
        width_exp = rnd.choice([-8, -7, -6.5, -6, -5, -3, -1, 0, 1, 3])
        halfw_base = 10.0 ** width_exp
        struct = gen_tree(rng, rnd, lambda s: s)
        leaves, treedef = jax.tree_util.tree_flatten(struct, is_leaf=lambda x: isinstance(x, tuple) and all(isinstance(i, int) for i in x))
        shapes = leaves

        def build(fn):
            return jax.tree_util.tree_unflatten(treedef, [fn(s) for s in shapes])

        halfw = build(lambda s: jnp.asarray(rng.uniform(0.5, 2.0, s) * halfw_base, jnp.float32))
        off = tmap(lambda h: jnp.asarray(rng.uniform(-10, 10, h.shape), jnp.float32) * h, halfw)
        lo = tmap(lambda o, h: o - h, off, halfw)
        hi = tmap(lambda o, h: o + h, off, halfw)
        # ensure min < max after float32 rounding
        if not all(bool((onp.asarray(b) > onp.asarray(a)).all()) for a, b in zip(jax.tree_util.tree_leaves(lo), jax.tree_util.tree_leaves(hi))):
            continue
        x = build(lambda s: jnp.asarray(rng.uniform(-1, 1, s), jnp.float32))
        nontriv = len(shapes) >= 3 and len(set(shapes)) >= 2
        desc = dict(family=fam, shapes=[list(s) for s in shapes], half_width_scale=halfw_base)
        try:
            if fam == "denorm":
                den = Denormalize.init(lo, hi)
                y = den.apply(x)
                xr = den.inv(y)
                counters["roundtrips_checked"] += 1
                # tolerance on the normalised value: float32 rounding of y is amplified by |y| / scale
                ratio = max(float(onp.max(onp.abs(onp.asarray(o)) / onp.asarray(h))) for o, h in zip(jax.tree_util.tree_leaves(off), jax.tree_util.tree_leaves(halfw)))
                atol = 1e-5 + 8 * EPS32 * (ratio + 1)
                ok, why = close(xr, x, rtol=1e-5, atol=atol)
                if not ok:
                    V.append(dict(clause="denormalize_roundtrip", detail=why, atol=atol))
                m1, p1 = tmap(lambda l: -jnp.ones_like(l), lo), tmap(lambda l: jnp.ones_like(l), lo)
                for nm, src, tgt in (("minus_one_to_min", m1, lo), ("plus_one_to_max", p1, hi)):
                    got = den.apply(src)
                    for g, tg, h in zip(jax.tree_util.tree_leaves(got), jax.tree_util.tree_leaves(tgt), jax.tree_util.tree_leaves(halfw)):
                        if (onp.abs(onp.asarray(g, float) - onp.asarray(tg, float)) > 1e-5 * onp.asarray(h, float) + 4 * EPS32 * onp.abs(onp.asarray(tg, float))).any():
                            V.append(dict(clause="denormalize_" + nm, got=onp.asarray(g).ravel()[:3].tolist(), expected=onp.asarray(tg).ravel()[:3].tolist()))
                            break
                    ok, why = close(den.inv(tgt), src, rtol=1e-5, atol=atol)
                    if not ok:
                        V.append(dict(clause="denormalize_inv_of_bound_" + nm, detail=why))
                # integer-typed bounds (python ints / int arrays), odd and even widths: -1 -> min, +1 -> max, round trip
                for lo_i, hi_i in ((0, 5), (-2, 1), (-3, 0), (2, 4), (jnp.array([0, -3], jnp.int32), jnp.array([1, 4], jnp.int32))):
                    try:
                        di = Denormalize.init({"k": lo_i}, {"k": hi_i})
                    except ValueError as ex_i:
                        V.append(dict(clause="denormalize_refuses_valid_integer_bounds", lo=str(lo_i), hi=str(hi_i), error=str(ex_i)[:80]))
                        continue
                    counters["integer_bounds_checked"] += 1
                    one = jnp.ones_like(jnp.asarray(lo_i), dtype=jnp.float32)
                    got_lo = onp.asarray(di.apply({"k": -one})["k"], float)
                    got_hi = onp.asarray(di.apply({"k": one})["k"], float)
                    if not onp.allclose(got_lo, onp.asarray(lo_i, float), atol=1e-6) or not onp.allclose(got_hi, onp.asarray(hi_i, float), atol=1e-6):
                        V.append(dict(clause="denormalize_integer_bounds_endpoints", lo=str(lo_i), hi=str(hi_i), got_lo=got_lo.tolist(), got_hi=got_hi.tolist()))
                    xi = {"k": 0.37 * one}
                    if not onp.allclose(onp.asarray(di.inv(di.apply(xi))["k"], float), 0.37, atol=1e-5):
                        V.append(dict(clause="denormalize_integer_bounds_roundtrip", lo=str(lo_i), hi=str(hi_i)))
                grid = [tmap(lambda l: jnp.full_like(l, g), lo) for g in onp.linspace(-1, 1, 9)]
                vals = [den.apply(g) for g in grid]
                for a, b in zip(vals[:-1], vals[1:]):
                    if not all(bool((onp.asarray(q) >= onp.asarray(p)).all()) for p, q in zip(jax.tree_util.tree_leaves(a), jax.tree_util.tree_leaves(b))):
                        V.append(dict(clause="denormalize_not_monotone"))
                        break
            elif fam == "exp_id":
                xe = tmap(lambda l: l * rnd.choice([1.0, 5.0, 20.0, 40.0]), x)  # log-space parameters down to -40 (exp still a normal float32)
                ex = Exponential.init()
                ok, why = close(ex.inv(ex.apply(xe)), xe, rtol=2e-6, atol=1e-5)
                counters["roundtrips_checked"] += 1
                if not ok:
                    V.append(dict(clause="exponential_roundtrip", detail=why))
                ok, why = close(ex.apply(xe), tmap(jnp.exp, xe), rtol=1e-6, atol=0)
                if not ok:
                    V.append(dict(clause="exponential_apply_not_exp", detail=why))
                idt = Identity.init()
                if not all(onp.array_equal(onp.asarray(a), onp.asarray(b)) for a, b in zip(jax.tree_util.tree_leaves(idt.inv(idt.apply(x))), jax.tree_util.tree_leaves(x))):
                    V.append(dict(clause="identity_roundtrip"))
            elif fam == "chain":
                # members that do not commute: denormalize d1, exponential, denormalize d2 (on the positive range)
                # contractions with different offsets: they do not commute with each other nor with exp, and keep every
                # intermediate value finite (the domain of the property)
                d1 = Denormalize.init(tmap(lambda l: -0.9 - 0.05 * jnp.abs(l), x), tmap(lambda l: 0.7 + 0.1 * jnp.abs(l), x))
                ex = Exponential.init()
                d2 = Denormalize.init(tmap(lambda l: jnp.ones_like(l) * -0.6, x), tmap(lambda l: jnp.ones_like(l) * 0.95, x))
                idt = Identity.init()
                pool = [d1, ex, d2, idt]

                used_exp = [False]

                def rand_nest(depth=0):
                    """returns (transform, list of leaf members in application order)"""
                    k = rnd.randint(2, 3)
                    members, flat = [], []
                    for _ in range(k):
                        if depth < 2 and rnd.random() < 0.4:
                            t_, f_ = rand_nest(depth + 1)
                        else:
                            t_ = rnd.choice(pool)
                            if t_ is ex:  # at most one exponential per chain (stay inside float32 range: the domain of the property)
                                if used_exp[0]:
                                    t_ = rnd.choice([d1, d2, idt])
                                else:
                                    used_exp[0] = True
                            f_ = [t_]
                        members.append(t_)
                        flat += f_
                    return Chain.init(*members), flat

                ch, flat = rand_nest()
                counters["chains_checked"] += 1
                counters["nested_chains_checked"] += int(any(isinstance(m, Chain) for m in ch.transforms))
                manual = x
                for m in flat:
                    manual = m.apply(manual)
                z = ch.apply(x)
                ok, why = close(z, manual, rtol=1e-6, atol=1e-7)
                if not ok:
                    V.append(dict(clause="chain_apply_not_first_to_last", detail=why, members=[type(m).__name__ for m in flat]))
                back = manual
                for m in flat[::-1]:
                    back = m.inv(back)
                zi = ch.inv(manual)
                ok, why = close(zi, back, rtol=1e-5, atol=1e-6)
                if not ok:
                    V.append(dict(clause="chain_inv_not_last_to_first", detail=why, members=[type(m).__name__ for m in flat]))
                ok, why = close(ch.inv(ch.apply(x)), x, rtol=1e-3, atol=1e-3)
                if not ok:
                    V.append(dict(clause="chain_roundtrip", detail=why))
            elif fam == "extend":
                base = build(lambda s: jnp.asarray(rng.uniform(-1, 1, s), jnp.float32))
                bl, bt = jax.tree_util.tree_flatten(base)
                keep = [rnd.random() < 0.5 for _ in bl]
                supplied = [jnp.asarray(rng.uniform(5, 6, l.shape), jnp.float32) if k else None for l, k in zip(bl, keep)]
                part = jax.tree_util.tree_unflatten(bt, supplied)
                # also drop a whole subtree sometimes
                if isinstance(part, dict) and "a" in part and rnd.random() < 0.4:
                    part = dict(part)
                    part["a"] = None
                    sub_leaves = len(jax.tree_util.tree_leaves(base["a"]))
                    keep = [False] * sub_leaves + keep[sub_leaves:]
                    supplied = [None] * sub_leaves + supplied[sub_leaves:]
                ext = Extend.init(base, part).apply(part)
                counters["extends_checked"] += 1
                el, et = jax.tree_util.tree_flatten(ext)
                if et != bt:
                    V.append(dict(clause="extend_structure_not_base_structure"))
                else:
                    for i, (e_, b_, s_) in enumerate(zip(el, bl, supplied)):
                        want = s_ if s_ is not None else b_
                        if not onp.array_equal(onp.asarray(e_), onp.asarray(want)):
                            V.append(dict(clause="extend_overwrote_supplied_leaf" if s_ is not None else "extend_did_not_fill_from_base", leaf=i))
                            break
                # base trees that themselves contain None leaves (optional parameters): supplied leaves must still land in their own slot
                for base_n, part_n, want in (
                    ({"a": jnp.float32(1.0), "b": None, "c": jnp.float32(3.0)}, {"a": None, "b": None, "c": jnp.float32(7.0)}, {"a": 1.0, "b": None, "c": 7.0}),
                    ({"a": None, "b": jnp.float32(2.0), "c": jnp.float32(3.0)}, {"a": None, "b": jnp.float32(8.0), "c": None}, {"a": None, "b": 8.0, "c": 3.0}),
                    ({"m": {"opt": None, "scale": jnp.float32(2.0)}, "z": jnp.float32(5.0)}, {"m": {"opt": None, "scale": jnp.float32(30.0)}, "z": None}, {"m": {"opt": None, "scale": 30.0}, "z": 5.0}),
                ):
                    try:
                        got_n = Extend.init(base_n, part_n).apply(part_n)
                    except Exception as ex_n:
                        counters["extend_none_in_base_refused"] += 1
                        continue
                    counters["extend_none_in_base_checked"] += 1
                    flat_g = jax.tree_util.tree_flatten_with_path(got_n, is_leaf=lambda x_: x_ is None)[0]
                    flat_w = jax.tree_util.tree_flatten_with_path(want, is_leaf=lambda x_: x_ is None)[0]
                    gw = {jax.tree_util.keystr(p_): (None if v_ is None else float(v_)) for p_, v_ in flat_g}
                    ww = {jax.tree_util.keystr(p_): v_ for p_, v_ in flat_w}
                    if gw != ww:
                        V.append(dict(clause="extend_with_none_in_base_misplaces_leaves", got=gw, expected=ww))
            else:  # shared
                tree = {"a": None, "b": jnp.asarray(rng.uniform(-1, 1, rnd.choice([(), (3,)])), jnp.float32), "c": {"d": None, "e": jnp.float32(2.0)}}
                sh = Shared.init(where=lambda p: p["a"], replace_fn=lambda p: p["b"])
                ap = sh.apply(tree)
                counters["roundtrips_checked"] += 1
                if not onp.array_equal(onp.asarray(ap["a"]), onp.asarray(tree["b"])) or not onp.array_equal(onp.asarray(ap["b"]), onp.asarray(tree["b"])):
                    V.append(dict(clause="shared_apply"))
                inv = sh.inv(ap)
                if inv["a"] is not None or not onp.array_equal(onp.asarray(inv["b"]), onp.asarray(tree["b"])) or inv["c"]["d"] is not None:
                    V.append(dict(clause="shared_roundtrip"))
                sh2 = Shared.init(where=lambda p: (p["a"], p["c"]["d"]), replace_fn=lambda p: (p["b"], p["c"]["e"]), inverse_fn=lambda p: (None, None))
                ap2 = sh2.apply(tree)
                inv2 = sh2.inv(ap2)
                if not onp.array_equal(onp.asarray(ap2["c"]["d"]), 2.0) or inv2["a"] is not None or inv2["c"]["d"] is not None:
                    V.append(dict(clause="shared_multi_roundtrip"))
        except Exception as ex_:
            import traceback

            V.append(dict(clause="transform_raised", error=f"{type(ex_).__name__}: {ex_}"[:200], tb=traceback.format_exc()[-500:]))
        key = f"{case['spec_seed']}/{t}/{fam}"
        if V:
            items.append(dict(status="violated", key=key, nontrivial=nontriv, witness=dict(mechanism=V[0]["clause"], violations=V[:3], case=desc)))
        else:
            items.append(dict(status="held", key=key, nontrivial=nontriv))
        if t < 2:
            samples.append(desc)
    return dict(items=items, counters=dict(counters), samples=samples)


def plan(tier, seed):
    n, per = (14, 100) if tier == "quick" else (200, 200)
    return [dict(name=f"t-{i}", spec_seed=seed * 100237 + i, n=per, timeout=600) for i in range(n)]
