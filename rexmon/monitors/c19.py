"""C19 — RL environment wrappers account episodes, actions and statistics correctly (reference models beside the real wrappers)."""
import random
from collections import Counter

import numpy as onp

RULE = ("a scripted environment (rewards, terminations, truncations and both-at-once follow a generated script; observations with offsets from 0 "
        "to 1e5 and noise; extreme and in-range actions) wrapped by the real AutoResetWrapper (fixed and fresh initial states), LogWrapper, "
        "SquashActionWrapper/ClipActionWrapper, VecEnvWrapper, NormalizeVecObservationWrapper and NormalizeVecReward in the stackings ppo.train "
        "uses, stepped 60-200 times (jitted) beside pure-numpy reference models; plus a compiled witness graph Environment whose step is "
        "compared with graph.step(gs, step_state, get_output(action)); one evaluation = one wrapper stack x script history (or one batch of "
        "squash values); non-trivial = history with >=1 termination-only, >=1 truncation-only end and >=3 episode ends; distinct by script "
        "digest x stack")
RULE += " Built later: integer-typed action bounds; an Environment whose pre-step hook edits the supervisor's own state."
MIN_NONTRIVIAL = {"quick": 20, "thorough": 400}
DECIDING = ["steps_checked", "episode_ends_checked"]
ASSUMPTIONS = ["unsquash may overshoot a bound by <= 2 ulp (float32 rounding of 0.5*(tanh+1)*(high-low)+low); running mean within 5e-3 std and variance "
               "within 1e-3 relative of the float64 reference (1e-4-count prior included)", "AutoReset deliberately carries rng and aux over"]
LEVEL = "exploration"
WORKERS = 12


def tree_equal(a, b, skip=()):
    import jax

    la, ta = jax.tree_util.tree_flatten_with_path(a)
    lb, tb = jax.tree_util.tree_flatten_with_path(b)
    if ta != tb:
        return "structure"
    for (pa, x), (pb, y) in zip(la, lb):
        name = jax.tree_util.keystr(pa)
        if any(s in name for s in skip):
            continue
        if not onp.array_equal(onp.asarray(x), onp.asarray(y)):
            return name
    return None


def check_stack(rnd, stats, fixed_init):
    import jax
    import jax.numpy as jnp

    from rex import rl
    from rexmon.toyenv import ScriptEnv, make_script

    V = []
    L = rnd.randint(12, 40)
    r, term, trunc = make_script(rnd, L, p_term=rnd.choice([0.05, 0.15]), p_trunc=rnd.choice([0.05, 0.15]), both=rnd.choice([0.0, 0.05]))
    low, high = [round(rnd.uniform(-3, -0.1), 2)], [round(rnd.uniform(0.1, 3), 2)]
    off, sc = rnd.choice([(0.0, 1.0), (4096.0, 0.5), (-12000.0, 1.0), (100.0, 1.0), (1e5, 3.0)])
    env = ScriptEnv(r, term, trunc, obs_dim=3, act_low=low, act_high=high, obs_offset=off, obs_scale=sc, noise=0.3)
    ar = rl.AutoResetWrapper(env, fixed_init=fixed_init)
    log = rl.LogWrapper(ar)
    squash = rnd.random() < 0.5
    sq = rl.SquashActionWrapper(log, squash=squash)
    B = rnd.choice([1, 4, 8])
    vec = rl.VecEnvWrapper(sq)
    nobs = rl.NormalizeVecObservationWrapper(vec)
    gamma = 0.95
    full = rl.NormalizeVecReward(nobs, gamma)
    keys = jax.random.split(jax.random.PRNGKey(rnd.randrange(1 << 20)), B)
    gs, obs, info = full.reset(keys)
    # ---- reference state (per env in the batch)
    _, raw_obs0, _ = jax.vmap(env.reset)(keys)
    raw_gs0, _, _ = jax.vmap(env.reset)(keys)
    ref_gs = raw_gs0  # unwrapped env states, stepped beside
    init_gs, init_obs = raw_gs0, raw_obs0
    ep_ret = onp.zeros(B)
    ep_len = onp.zeros(B, int)
    ret_ret = onp.zeros(B)
    ret_len = onp.zeros(B, int)
    mean, var, cnt = onp.zeros(3), onp.ones(3), 1e-4
    rmean, rvar, rcnt = 0.0, 1.0, 1e-4
    retval = onp.zeros(B)

    def upd(mean, var, cnt, x):
        x = onp.asarray(x, float)
        bm, bv, bc = x.mean(0), x.var(0), x.shape[0]
        d = bm - mean
        tot = cnt + bc
        return mean + d * bc / tot, (var * cnt + bv * bc + d * d * cnt * bc / tot) / tot, tot

    mean, var, cnt = upd(mean, var, cnt, raw_obs0)
    exp_obs = onp.clip((onp.asarray(raw_obs0, float) - mean) / onp.sqrt(var + 1e-8), -10, 10)
    if not onp.allclose(onp.asarray(obs), exp_obs, rtol=2e-3, atol=2e-3):
        V.append(dict(clause="normalised_initial_observation", got=onp.asarray(obs)[0].tolist(), expected=exp_obs[0].tolist()))
    step = jax.jit(full.step)
    env_step = jax.jit(jax.vmap(env.step))
    env_reset = jax.vmap(env.reset)
    ends = Counter()
    n_steps = rnd.randint(60, 120)
    for i in range(n_steps):
        kind = rnd.random()
        if kind < 0.2:
            a = onp.array([[rnd.choice([-1e6, 1e6, 50.0, -50.0, onp.inf, -onp.inf])] for _ in range(B)], onp.float32)
        else:
            a = onp.array([[rnd.uniform(-2, 2)] for _ in range(B)], onp.float32)
        # reference: what the inner env receives
        lo_, hi_ = onp.float32(low[0]), onp.float32(high[0])
        if squash:
            a_env = (onp.float32(0.5) * (onp.tanh(a.astype(onp.float32)) + onp.float32(1.0)) * (hi_ - lo_) + lo_).astype(onp.float32)
        else:
            a_env = onp.clip(a, lo_, hi_).astype(onp.float32)
        ref_next, ref_obs, ref_r, ref_term, ref_trunc, _ = env_step(ref_gs, jnp.asarray(a_env))
        ref_done = onp.asarray(ref_term) | onp.asarray(ref_trunc)
        gs, obs, rew, term_, trunc_, info = step(gs, jnp.asarray(a))
        stats["steps_checked"] += B
        # flags and (unnormalised) reward bookkeeping describe the finished episode
        if not onp.array_equal(onp.asarray(term_), onp.asarray(ref_term)) or not onp.array_equal(onp.asarray(trunc_), onp.asarray(ref_trunc)):
            V.append(dict(clause="done_flags_not_those_of_the_step", step=i))
            break
        # log wrapper reference
        ep_ret = ep_ret + onp.asarray(ref_r, float)
        ep_len = ep_len + 1
        for b in range(B):
            if ref_done[b]:
                ret_ret[b], ret_len[b] = ep_ret[b], ep_len[b]
                ep_ret[b], ep_len[b] = 0.0, 0
                ends["term_only" if (ref_term[b] and not ref_trunc[b]) else ("trunc_only" if (ref_trunc[b] and not ref_term[b]) else "both")] += 1
                stats["episode_ends_checked"] += 1
        got_ret = onp.asarray(info["returned_episode_returns"], float)
        got_len = onp.asarray(info["returned_episode_lengths"])
        if not onp.allclose(got_ret, ret_ret, rtol=1e-4, atol=1e-4) or not onp.array_equal(got_len, ret_len):
            V.append(dict(clause="log_wrapper_return_or_length", step=i, got_returns=got_ret.tolist(), expected_returns=ret_ret.tolist(), got_lengths=got_len.tolist(),
                          expected_lengths=ret_len.tolist(), ends=dict(ends)))
            break
        if not onp.array_equal(onp.asarray(info["returned_episode"]), ref_done):
            V.append(dict(clause="log_wrapper_returned_episode_flag", step=i))
        # auto reset reference
        if fixed_init:
            nxt_state = jax.tree_util.tree_map(lambda d_, x, y: onp.where(onp.reshape(ref_done, (-1,) + (1,) * (onp.ndim(x) - 1)), onp.asarray(x), onp.asarray(y)),
                                               None, init_gs.state, ref_next.state) if False else None
            raw_after = []
            for b in range(B):
                raw_after.append(ref_done[b])
            # inner-env state: initial one where done, stepped one otherwise
            st_got = gs.state["env"]
            for fld in ("t", "off", "last"):
                exp = onp.where(ref_done, onp.asarray(getattr(init_gs.state["env"], fld)), onp.asarray(getattr(ref_next.state["env"], fld)))
                if not _same(onp.asarray(getattr(st_got, fld)), exp):
                    V.append(dict(clause="auto_reset_state_after_episode_end" if ref_done.any() else "pass_through_state_changed", step=i, field=fld,
                                  got=onp.asarray(getattr(st_got, fld)).tolist(), expected=exp.tolist(), done=ref_done.tolist()))
                    break
            raw_obs_exp = onp.where(ref_done[:, None], onp.asarray(init_obs), onp.asarray(ref_obs))
            # rebuild the reference env state for the next step: where done -> initial state but rng carried over (the wrapper keeps rng)
            new_state = jax.tree_util.tree_map(lambda a_, b_: jnp.where(jnp.reshape(jnp.asarray(ref_done), (-1,) + (1,) * (jnp.ndim(a_) - 1)), a_, b_), init_gs.state, ref_next.state)
            ref_gs = ref_next.replace(state=new_state, step=jnp.where(jnp.asarray(ref_done), init_gs.step, ref_next.step))
        else:
            # fresh: env.reset(rng_init) with rng_init = split(gs.rng['env'])[1] -- performed on every step, used where done
            new_rng, rng_init = jax.vmap(lambda k: tuple(jax.random.split(k)))(ref_next.rng["env"])
            fr_gs, fr_obs, _ = env_reset(rng_init)
            st_got = gs.state["env"]
            for fld in ("t", "off", "last"):
                exp = onp.where(ref_done, onp.asarray(getattr(fr_gs.state["env"], fld)), onp.asarray(getattr(ref_next.state["env"], fld)))
                if not _same(onp.asarray(getattr(st_got, fld)), exp):
                    V.append(dict(clause="auto_reset_fresh_state_after_episode_end" if ref_done.any() else "pass_through_state_changed", step=i, field=fld,
                                  got=onp.asarray(getattr(st_got, fld)).tolist(), expected=exp.tolist(), done=ref_done.tolist()))
                    break
            raw_obs_exp = onp.where(ref_done[:, None], onp.asarray(fr_obs), onp.asarray(ref_obs))
            stepped = ref_next.replace(rng=ref_next.rng.copy({"env": new_rng}))
            sel = lambda a_, b_: jnp.where(jnp.reshape(jnp.asarray(ref_done), (-1,) + (1,) * (jnp.ndim(a_) - 1)), a_, b_)
            ref_gs = stepped.replace(state=jax.tree_util.tree_map(sel, fr_gs.state, stepped.state), rng=FrozenDictSel(sel, fr_gs.rng, stepped.rng),
                                     step=jnp.where(jnp.asarray(ref_done), fr_gs.step, stepped.step))
        if V:
            break
        # normalisation references
        mean, var, cnt = upd(mean, var, cnt, raw_obs_exp)
        ns = gs.aux["norm_obs"]
        std = onp.sqrt(var)
        if (onp.abs(onp.asarray(ns.mean, float) - mean) > 5e-3 * std + 1e-6).any() or (onp.abs(onp.asarray(ns.var, float) - var) > 1e-3 * var + 1e-9).any() or \
                abs(float(ns.count) - cnt) > 1e-3:
            V.append(dict(clause="running_observation_statistics", step=i, mean=onp.asarray(ns.mean).tolist(), expected_mean=mean.tolist(), var=onp.asarray(ns.var).tolist(),
                          expected_var=var.tolist(), count=float(ns.count), expected_count=cnt, offset=off))
            break
        exp_obs = onp.clip((raw_obs_exp.astype(float) - mean) / onp.sqrt(var + 1e-8), -10, 10)
        if not onp.allclose(onp.asarray(obs, float), exp_obs, rtol=5e-3, atol=5e-3 + 2e-3 * abs(off) / max(sc, 1e-9) * 1e-3):
            V.append(dict(clause="normalised_observation", step=i, got=onp.asarray(obs)[0].tolist(), expected=exp_obs[0].tolist()))
            break
        retval = retval * gamma * (1 - ref_done) + onp.asarray(ref_r, float)
        bm, bv = retval.mean(), retval.var()
        d = bm - rmean
        tot = rcnt + B
        rmean, rvar, rcnt = rmean + d * B / tot, (rvar * rcnt + bv * B + d * d * rcnt * B / tot) / tot, tot
        nr = gs.aux["norm_reward"]
        if abs(float(nr.mean) - rmean) > 5e-3 * onp.sqrt(rvar) + 1e-5 or abs(float(nr.var) - rvar) > 2e-3 * rvar + 1e-7:
            V.append(dict(clause="running_return_statistics", step=i, mean=float(nr.mean), expected_mean=rmean, var=float(nr.var), expected_var=rvar))
            break
        exp_r = onp.clip(onp.asarray(ref_r, float) / onp.sqrt(rvar + 1e-8), -10, 10)
        if not onp.allclose(onp.asarray(rew, float), exp_r, rtol=5e-3, atol=1e-4):
            V.append(dict(clause="normalised_reward", step=i, got=onp.asarray(rew).tolist(), expected=exp_r.tolist()))
            break
    nontriv = ends["term_only"] >= 1 and ends["trunc_only"] >= 1 and sum(ends.values()) >= 3
    desc = dict(L=L, batch=B, squash=squash, fixed_init=fixed_init, obs_offset=off, steps=n_steps, ends=dict(ends), low=low, high=high)
    return V, nontriv, desc


def _same(a, b):
    """ints exact; floats up to float32 rounding (numpy tanh vs XLA tanh differ by 1 ulp in the reference action)"""
    a, b = onp.asarray(a), onp.asarray(b)
    if a.dtype.kind == "f" or b.dtype.kind == "f":
        return a.shape == b.shape and onp.allclose(a, b, rtol=2e-6, atol=2e-6)
    return onp.array_equal(a, b)


def FrozenDictSel(sel, a, b):
    from flax.core import FrozenDict

    return FrozenDict({k: sel(a[k], b[k]) for k in a})


def check_squash(rnd, stats):
    import jax.numpy as jnp

    from rex.rl import SquashState

    V = []
    n = 400
    low = onp.array([rnd.uniform(-5, -0.01) * 10 ** rnd.randint(-2, 2) for _ in range(n)], onp.float32)
    high = (low + onp.array([rnd.uniform(0.01, 5) * 10 ** rnd.randint(-2, 2) for _ in range(n)], onp.float32)).astype(onp.float32)
    sq = SquashState(low=jnp.asarray(low), high=jnp.asarray(high), squash=True)
    cl = SquashState(low=jnp.asarray(low), high=jnp.asarray(high), squash=False)
    xs = onp.array([rnd.choice([rnd.uniform(-6, 6), rnd.uniform(-100, 100), 1e6, -1e6, onp.inf, -onp.inf, 20.0, -20.0]) for _ in range(n)], onp.float32)
    y = onp.asarray(sq.unsquash(jnp.asarray(xs)))
    stats["squash_values_checked"] += n
    ulp = onp.maximum(onp.spacing(onp.abs(low)), onp.spacing(onp.abs(high)))
    over = onp.maximum(low - y, y - high) / ulp
    stats["worst_overshoot_ulps_x10"] = max(stats.get("worst_overshoot_ulps_x10", 0), int(10 * max(0.0, float(onp.nanmax(over)))))
    if onp.isnan(y).any() or (over > 2.0).any():
        j = int(onp.nanargmax(onp.where(onp.isnan(y), onp.inf, over)))
        V.append(dict(clause="squashed_action_outside_bounds", x=float(xs[j]), y=float(y[j]), low=float(low[j]), high=float(high[j]), overshoot_ulps=float(over[j])))
    yc = onp.asarray(cl.unsquash(jnp.asarray(xs)))
    if not onp.array_equal(yc, onp.clip(xs, low, high)):
        V.append(dict(clause="clip_variant_not_exact"))
    # inverses inside the bounds
    a = (low + (high - low) * onp.array([rnd.uniform(0.02, 0.98) for _ in range(n)], onp.float32)).astype(onp.float32)
    back = onp.asarray(sq.unsquash(sq.scale(jnp.asarray(a))))
    if (onp.abs(back - a) > 1e-4 * (high - low) + 4 * ulp).any():
        j = int(onp.argmax(onp.abs(back - a) / (high - low)))
        V.append(dict(clause="unsquash_scale_not_identity", a=float(a[j]), back=float(back[j]), low=float(low[j]), high=float(high[j])))
    ys = onp.array([rnd.uniform(-3, 3) for _ in range(n)], onp.float32)
    back2 = onp.asarray(sq.scale(sq.unsquash(jnp.asarray(ys))))
    # forward error of u = 2(x-low)/(high-low)-1 is ~eps*max|bound|/(high-low); arctanh amplifies it by cosh(y)^2
    tol = 16 * 1.2e-7 * (onp.maximum(onp.abs(low), onp.abs(high)) / (high - low) + 1.0) * onp.cosh(ys) ** 2 + 1e-5
    well = (onp.maximum(onp.abs(low), onp.abs(high)) / (high - low)) <= 10.0  # elsewhere float32 cannot represent the squashed value distinctly
    stats["inverse_pairs_checked"] += int(well.sum())
    err = onp.where(well, onp.abs(back2 - ys), 0.0)
    if (err > tol).any():
        j = int(onp.argmax(err / tol))
        V.append(dict(clause="scale_unsquash_not_identity", y=float(ys[j]), back=float(back2[j])))
    if not onp.array_equal(onp.asarray(cl.scale(jnp.asarray(a))), a):
        V.append(dict(clause="clip_variant_scale_not_identity"))
    # integer-typed bounds (a Box given as ints): actions are still real-valued
    for lo_i, hi_i in ((jnp.array([-2, 0]), jnp.array([2, 5])), (onp.array([-3, 1]), onp.array([4, 2]))):
        for squash_ in (True, False):
            si = SquashState(low=jnp.asarray(lo_i), high=jnp.asarray(hi_i), squash=squash_)
            ai = jnp.asarray(lo_i, jnp.float32) + jnp.array([0.37, 0.61], jnp.float32) * (jnp.asarray(hi_i, jnp.float32) - jnp.asarray(lo_i, jnp.float32))
            back_i = onp.asarray(si.unsquash(si.scale(ai)), float)
            stats["integer_bounds_checked"] += 1
            if not onp.allclose(back_i, onp.asarray(ai, float), atol=1e-4):
                V.append(dict(clause="integer_typed_bounds_truncate_actions", squash=squash_, a=onp.asarray(ai).tolist(), back=back_i.tolist(), low=onp.asarray(lo_i).tolist(), high=onp.asarray(hi_i).tolist()))
    return V


def check_environment(rnd, stats, seed):
    """Environment.step == graph.step(gs, step_state, get_output(action)) on a compiled witness graph."""
    import jax
    import jax.numpy as jnp

    from rex import rl
    from rexmon import drive_comp as C
    from rexmon import specs as S
    from rexmon import witness as W
    from rexmon.monitors import c09

    spec = S.rand_gen(seed, n_min=2, n_max=3)
    nodes, sup, cg = C.generated_graph(spec, ts_max=0.7, num_episodes=2, seed=seed, trace="none")
    try:
        G = C.build_compiled(nodes, sup, cg, mode=rnd.choice(["mcs", "gen", "top"]), prune=True)
    except C.Rejected:
        return None

    class Env(rl.Environment):
        def observation_space(self, gs):
            return rl.Box(low=-jnp.inf * jnp.ones(2), high=jnp.inf * jnp.ones(2), shape=(2,))

        def action_space(self, gs):
            return rl.Box(low=-jnp.ones(1), high=jnp.ones(1), shape=(1,))

        def get_observation(self, gs):
            ss = self.get_step_state(gs)
            return jnp.array([ss.seq.astype(jnp.float32), (ss.state.h % 1000).astype(jnp.float32)])

        def get_output(self, gs, action):
            ss = self.get_step_state(gs)
            h = jax.lax.bitcast_convert_type(jnp.asarray(action, jnp.float32).reshape(-1)[0], jnp.uint32)
            return W.WOut(src=jnp.int32(sup.idx), seq=jnp.asarray(ss.seq, jnp.int32), nonce=jnp.asarray(ss.params.nonce, jnp.int32), h=h,
                          vec=jnp.stack([h, h ^ jnp.uint32(W.VEC_X), (h >> 7) | jnp.uint32(1)]))

        def get_reward(self, gs, action):
            return jnp.float32(1.0)

        def get_truncated(self, gs):
            return gs.step >= self.graph.max_steps

        def get_terminated(self, gs):
            return False

    class HookEnv(Env):
        """uses the documented pre/post-step hooks: the pre-step hook edits the supervisor's own state and another node's state"""

        def update_graph_state_pre_step(self, gs, action):
            ss = gs.step_state[sup.name]
            bump = jax.lax.bitcast_convert_type(jnp.asarray(action, jnp.float32).reshape(-1)[0], jnp.uint32)
            new_states = {sup.name: ss.state.replace(h=ss.state.h ^ bump, cnt=ss.state.cnt + 100)}
            other = [n for n in nodes if n != sup.name][0]
            new_states[other] = gs.state[other].replace(cnt=gs.state[other].cnt + 7)
            return gs.replace(state=gs.state.copy(new_states))

        def update_graph_state_post_step(self, gs, action=None):
            return gs.replace(eps=gs.eps)  # identity, but exercised

    V = []
    for env in (Env(G), HookEnv(G)):
        hook = isinstance(env, HookEnv)
        gs, obs, info = env.reset(jax.random.PRNGKey(seed))
        step = jax.jit(env.step)
        gstep = jax.jit(G.step)
        for i in range(min(5, G.max_steps - 1)):
            a = jnp.array([rnd.uniform(-1, 1)], jnp.float32)
            out = env.get_output(gs, a)
            gs_pre = env.update_graph_state_pre_step(gs, a)
            ref_gs, _ = gstep(gs_pre, gs_pre.step_state[sup.name], out)
            gs2, obs, r, te, tr, info = step(gs, a)
            st = Counter()
            d = c09.tree_diff(gs2, ref_gs, st)
            stats["environment_steps_checked"] += 1
            if d:
                V.append(dict(clause="environment_step_not_graph_step", step=i, diffs=d, pre_step_hook=hook))
                break
            gs = gs2
    return V


def run_case(case):
    from rexmon import specs as S

    rnd = random.Random(case["spec_seed"])
    items, counters, samples = [], Counter(), []
    for t in range(case.get("n", 3)):
        st = Counter()
        fixed = (t % 2 == 0)
        try:
            V, nontriv, desc = check_stack(rnd, st, fixed)
        except Exception as ex:
            import traceback

            V, nontriv, desc = [dict(clause="wrapper_raised", error=f"{type(ex).__name__}: {ex}"[:200], tb=traceback.format_exc()[-600:])], True, {}
        counters.update({k: v for k, v in st.items()})
        key = f"{case['spec_seed']}/{t}/{'fixed' if fixed else 'fresh'}"
        if V:
            items.append(dict(status="violated", key=key, nontrivial=nontriv, witness=dict(mechanism=V[0]["clause"], violations=V[:3], stack=desc)))
        else:
            items.append(dict(status="held", key=key, nontrivial=nontriv))
        if t == 0:
            samples.append(desc)
    st = Counter()
    V = check_squash(rnd, st)
    for k, v in st.items():
        counters[k] = max(counters[k], v) if k.startswith("worst") else counters[k] + v
    items.append(dict(status="violated" if V else "held", key=f"{case['spec_seed']}/squash", nontrivial=True, **({"witness": dict(mechanism=V[0]["clause"], violations=V[:3])} if V else {})))
    if case.get("env", True):
        st = Counter()
        V = check_environment(rnd, st, case["spec_seed"])
        counters.update(st)
        if V is None:
            items.append(dict(status="rejected", key=f"{case['spec_seed']}/environment", nontrivial=False, note="graph rejected"))
        else:
            items.append(dict(status="violated" if V else "held", key=f"{case['spec_seed']}/environment", nontrivial=True,
                              **({"witness": dict(mechanism=V[0]["clause"], violations=V[:3])} if V else {})))
    return dict(items=items, counters=dict(counters), samples=samples)


def plan(tier, seed):
    n, per = (12, 4) if tier == "quick" else (120, 8)
    return [dict(name=f"w-{i}", spec_seed=seed * 100271 + i, n=per, env=(i % 2 == 0), timeout=900) for i in range(n)]
