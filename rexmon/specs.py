"""Graph specs: JSON-serialisable descriptions of node graphs, generators, classes (DESIGN.md 2.4) and builders."""
from rexmon import env  # noqa: F401

import hashlib
import json
import random

RATES = [5, 8, 10, 13, 17, 20, 25, 33, 40, 50]


def digest(obj) -> str:
    return hashlib.sha1(json.dumps(obj, sort_keys=True, default=str).encode()).hexdigest()[:12]


# ------------------------------------------------------------------ delay distributions
def rand_dist(rnd, scale, kinds=("det", "det0", "norm", "norm", "gmm")):
    k = rnd.choice(kinds)
    if k == "det0":
        return ["det", 0.0]
    if k == "det":
        return ["det", round(rnd.uniform(0.05, 1.0) * scale, 4)]
    if k == "norm":
        return ["norm", round(rnd.uniform(0.05, 1.0) * scale, 4), round(rnd.uniform(0.0, 0.5) * scale, 4)]
    m1, m2 = round(rnd.uniform(0.05, 0.6) * scale, 4), round(rnd.uniform(0.3, 1.5) * scale, 4)
    return ["gmm", m1, m2, round(rnd.uniform(0.01, 0.2) * scale, 4), round(rnd.uniform(0.1, 0.9), 2)]


def mk_dist(d):
    import jax.numpy as jnp
    from distrax import Categorical, Deterministic, MixtureSameFamily, Normal

    from rex.base import TrainableDist

    if d[0] == "det":
        return Deterministic(d[1])
    if d[0] == "norm":
        return Normal(d[1], d[2])
    if d[0] == "gmm":
        _, m1, m2, s, p = d
        return MixtureSameFamily(
            mixture_distribution=Categorical(probs=jnp.array([p, 1 - p])),
            components_distribution=Normal(loc=jnp.array([m1, m2]), scale=jnp.array([s, s])),
        )
    if d[0] == "train":  # ["train", delay, min, max, interp]
        return TrainableDist.create(delay=d[1], min=d[2], max=d[3], interp=d[4] if len(d) > 4 else "zoh")
    raise ValueError(d)


def q99(d):
    if d[0] == "det":
        return d[1]
    if d[0] == "norm":
        return d[1] + 2.33 * d[2]
    if d[0] == "gmm":
        return max(d[1], d[2]) + 2.33 * d[3]
    if d[0] == "train":
        return d[1]
    raise ValueError(d)


def is_jittery(d):
    return (d[0] == "norm" and d[2] > 0) or d[0] == "gmm"


# ------------------------------------------------------------------ random specs
def rand_spec(seed, allow_blocking=True, allow_buffer=True, allow_advance=True, allow_phase=True, overrun=True,
              n_min=2, n_max=5, comm_scale=0.02, p_edge=0.45, zero_bias=0.0, rates=None, max_window=4, p_fwd_skip=0.12, p_buffer=0.25,
              buffer_back=True):
    """Random DAG plus skipped back-edges. Every node gets at least one input (DESIGN.md 2.4)."""
    rnd = random.Random(seed)
    rates = rates or RATES
    N = rnd.randint(n_min, n_max)
    nodes = []
    zero = rnd.random() < zero_bias  # all-zero-delay graph with commensurate rates: exact ties on purpose
    if zero:
        base = rnd.choice([5, 10, 20])
        rates = [base, base, 2 * base, 4 * base] if rnd.random() < 0.7 else rates
    for i in range(N):
        rate = rnd.choice(rates)
        scale = (1.0 / rate) * (rnd.choice([0.3, 0.8, 1.6]) if overrun else 0.5)
        delay = ["det", 0.0] if zero else rand_dist(rnd, scale)
        nodes.append(dict(name=f"n{i}", rate=rate, delay=delay, scheduling=rnd.choice(["F", "P"]) if allow_phase else "F",
                          advance=False))
    conns = []
    order = list(range(N))
    rnd.shuffle(order)
    pos = {n: k for k, n in enumerate(order)}

    def cdelay():
        return ["det", 0.0] if zero else rand_dist(rnd, comm_scale)

    for a in range(N):
        for b in range(N):
            if a == b:
                continue
            if rnd.random() < p_edge:
                back = pos[a] > pos[b]  # a -> b against the order needs skip
                # skip is required on back-edges and allowed (strict "arrived before the step" rule) on forward edges too
                conns.append(dict(out=f"n{a}", inp=f"n{b}", window=rnd.randint(1, max_window), skip=back or rnd.random() < p_fwd_skip,
                                  blocking=allow_blocking and rnd.random() < 0.4,
                                  jitter="B" if (allow_buffer and rnd.random() < p_buffer and (buffer_back or not back)) else "L", delay=cdelay()))
    for k in range(1, N):  # every non-first node gets at least one forward input
        b = order[k]
        if not any(c["inp"] == f"n{b}" and not c["skip"] for c in conns):
            a = order[rnd.randrange(0, k)]
            ex = [c for c in conns if c["out"] == f"n{a}" and c["inp"] == f"n{b}"]
            if ex:  # a (skipped) forward edge is already there: un-skip it. A second connection between the same pair would
                ex[0]["skip"] = False  # overwrite the sender's outputs entry (rex keys it by the receiver's name): API misuse
            else:
                conns.append(dict(out=f"n{a}", inp=f"n{b}", window=rnd.randint(1, min(3, max_window)), skip=False, blocking=False,
                                  jitter="L", delay=cdelay()))
    sup = f"n{order[rnd.randrange(1, N)]}"  # supervisor always has a non-skipped input (never the first node)
    # the first node gets a skipped feedback edge (from the supervisor) if it has no input at all
    first = f"n{order[0]}"
    if not any(c["inp"] == first for c in conns):
        conns.append(dict(out=sup, inp=first, window=rnd.randint(1, min(2, max_window)), skip=True, blocking=False, jitter="L",
                          delay=cdelay()))
    if allow_advance:
        for nd in nodes:
            ins = [c for c in conns if c["inp"] == nd["name"]]
            if ins and any(c["blocking"] for c in ins) and rnd.random() < 0.4:
                nd["advance"] = True
    return dict(seed=seed, nodes=nodes, conns=conns, supervisor=sup)


def in_live(spec):
    """G_live predicate (DESIGN.md 2.4): no chronic overrun, no blocking fast->slow, no blocking+skip."""
    rate = {n["name"]: n["rate"] for n in spec["nodes"]}
    if any(q99(n["delay"]) >= 0.95 / n["rate"] for n in spec["nodes"]):
        return False
    for c in spec["conns"]:
        if c["blocking"] and c["skip"]:
            return False
        if c["blocking"] and rate[c["out"]] > rate[c["inp"]]:
            return False
    return True


def rand_fan(seed):
    """A fast receiver with two or three slow non-blocking senders that in turn listen to the receiver (skipped back-edges): one
    sender timestamp makes several receiver ticks selectable at once on each input, so every handler that processes one queue
    entry per event must be re-triggered for the rest (non-blocking analogue of rand_blk)."""
    rnd = random.Random(seed * 7901 + 3)
    rf = rnd.choice([25, 33, 40, 50])
    small = lambda r: rand_dist(rnd, 0.3 / r, kinds=("det0", "det", "norm", "norm"))
    cd = lambda: rand_dist(rnd, 0.01, kinds=("det0", "det", "norm"))
    nodes = [dict(name="n0", rate=rf, delay=small(rf), scheduling=rnd.choice("FP"), advance=False)]
    conns = []
    for k in range(1, rnd.choice([3, 3, 4])):
        rs = rnd.choice([4, 5, 8, 10])
        nodes.append(dict(name=f"n{k}", rate=rs, delay=small(rs), scheduling=rnd.choice("FP"), advance=False))
        conns.append(dict(out=f"n{k}", inp="n0", window=rnd.randint(1, 3), skip=False, blocking=False, jitter=rnd.choice("LLB"), delay=cd()))
        conns.append(dict(out="n0", inp=f"n{k}", window=rnd.randint(1, 4), skip=True, blocking=False, jitter=rnd.choice("LLB"), delay=cd()))
    return dict(seed=seed, nodes=nodes, conns=conns, supervisor=rnd.choice(["n0", "n1"]))


def in_wide(spec):
    """G_wide: everything except a blocking connection from a strictly faster sender to a slower receiver (the one shape for which
    the source documents that num_tokens = 10 may be too low). Overruns and blocking+skip are allowed (recalibrated after repairs
    5.1-m/n: 0 stalls in 765 such graphs, against 20 in 765 graphs with a blocking fast->slow edge)."""
    rate = {n["name"]: n["rate"] for n in spec["nodes"]}
    return not any(c["blocking"] and rate[c["out"]] > rate[c["inp"]] for c in spec["conns"])


def rand_wide(seed, live_ok=False, **kw):
    s = seed * 1000
    while True:
        spec = rand_spec(s, **kw)
        if in_wide(spec) and (live_ok or not in_live(spec)):
            spec["seed"] = seed
            spec["gen_seed"] = s
            return spec
        s += 1


def in_gen(spec):
    """What generate_graphs supports."""
    return (not any(c["blocking"] or c["jitter"] == "B" for c in spec["conns"])
            and not any(n["advance"] or n["scheduling"] == "P" for n in spec["nodes"]))


def rand_live(seed, **kw):
    s = seed * 1000
    while True:
        spec = rand_spec(s, **kw)
        if in_live(spec):
            spec["seed"] = seed
            spec["gen_seed"] = s
            return spec
        s += 1


def rand_cyc(seed):
    """G_live ring in which a fast node F (often advancing on a blocking input from a slow node S) feeds the supervisor A without
    blocking, and S listens to A through a skipped non-blocking edge: A's selections for steps that expect *zero* messages from the
    bursty F are queued behind incomplete ones, and the next message of F needs A's progress (lost-wakeup shape, DESIGN 5.1-m)."""
    rnd = random.Random(seed * 7919 + 13)
    while True:
        ra, rs, rf = rnd.choice([10, 13, 17, 20, 25]), rnd.choice([5, 8]), rnd.choice([33, 40, 50])
        small = lambda r: rand_dist(rnd, 0.3 / r, kinds=("det0", "det", "norm"))
        nodes = [dict(name="n0", rate=ra, delay=small(ra), scheduling=rnd.choice("FP"), advance=False),
                 dict(name="n1", rate=rs, delay=small(rs), scheduling=rnd.choice("FP"), advance=False),
                 dict(name="n2", rate=rf, delay=["det", 0.0] if rnd.random() < 0.6 else small(rf), scheduling=rnd.choice("FP"), advance=rnd.random() < 0.7)]
        cd = lambda: rand_dist(rnd, 0.02, kinds=("det0", "det", "norm"))
        conns = [dict(out="n0", inp="n1", window=rnd.randint(1, 3), skip=True, blocking=False, jitter=rnd.choice("LB"), delay=cd()),
                 dict(out="n1", inp="n2", window=rnd.randint(1, 4), skip=False, blocking=True, jitter="L", delay=cd()),
                 dict(out="n2", inp="n0", window=rnd.randint(1, 4), skip=False, blocking=False, jitter="L", delay=cd())]
        if rnd.random() < 0.5:  # a bystander that listens to two members of the ring
            rx = rnd.choice([8, 10, 20])
            nodes.append(dict(name="n3", rate=rx, delay=small(rx), scheduling=rnd.choice("FP"), advance=False))
            conns.append(dict(out="n2", inp="n3", window=rnd.randint(1, 4), skip=rnd.random() < 0.3, blocking=False, jitter="L", delay=cd()))
            conns.append(dict(out="n1", inp="n3", window=rnd.randint(1, 3), skip=False, blocking=False, jitter="L", delay=cd()))
        spec = dict(seed=seed, nodes=nodes, conns=conns, supervisor="n0")
        if in_live(spec):
            return spec


def rand_blk(seed):
    """Cycle of *blocking* connections with a slow->fast member: the fast receiver's ts_max entries that expect zero timestamps
    are queued behind incomplete ones, and the slow sender's next timestamp needs the receiver's (blocking, skipped back-edge).
    Rate multiples stay <= 4 so that the documented num_tokens limit (multiple + 1 <= 10) is far away (DESIGN 5.1-n)."""
    rnd = random.Random(seed * 7907 + 5)
    rs = rnd.choice([5, 8, 10])
    rf = rs * rnd.choice([2, 3, 4]) + rnd.choice([0, 0, 1, 3])
    small = lambda r: rand_dist(rnd, 0.3 / r, kinds=("det0", "det", "norm", "norm"))
    cd = lambda: rand_dist(rnd, 0.01, kinds=("det0", "det", "norm"))
    nodes = [dict(name="n0", rate=rs, delay=small(rs), scheduling=rnd.choice("FP"), advance=False),
             dict(name="n1", rate=rf, delay=small(rf), scheduling=rnd.choice("FP"), advance=False)]
    conns = [dict(out="n0", inp="n1", window=rnd.randint(1, 4), skip=False, blocking=True, jitter=rnd.choice("LB"), delay=cd()),
             dict(out="n1", inp="n0", window=rnd.randint(1, 4), skip=True, blocking=True, jitter="L", delay=cd())]
    k = rnd.random()
    if k < 0.85:  # a third member, slower than n1, inside or beside the cycle (blocking: its timestamps are needed too)
        rx = rnd.choice([5, 8, 10, 13])
        nodes.append(dict(name="n2", rate=rx, delay=small(rx), scheduling=rnd.choice("FP"), advance=False))
        conns.append(dict(out="n2", inp="n1", window=rnd.randint(1, 3), skip=False, blocking=rnd.random() < 0.85, jitter="L", delay=cd()))
        conns.append(dict(out="n0", inp="n2", window=rnd.randint(1, 3), skip=rnd.random() < 0.5, blocking=False, jitter=rnd.choice("LB"), delay=cd()))
    return dict(seed=seed, nodes=nodes, conns=conns, supervisor=rnd.choice(["n0", "n0", "n1"]))


def rand_gen(seed, **kw):
    kw = dict(allow_blocking=False, allow_buffer=False, allow_advance=False, allow_phase=False, overrun=False, **kw)
    return rand_spec(seed, **kw)


# corpus: templates the repository itself exercises (tests/unit/test_asynchronous.py; validated on the unchanged tree)
def corpus():
    out = []
    for sched, buf in (("F", True), ("P", True), ("F", False)):
        out.append(dict(seed=-1, supervisor="node1", nodes=[
            dict(name="node1", rate=10, delay=["det", 0.01], scheduling=sched, advance=False),
            dict(name="node2", rate=11, delay=["det", 0.01], scheduling=sched, advance=False),
            dict(name="node3", rate=12, delay=["det", 0.01], scheduling=sched, advance=False),
            dict(name="node4", rate=13, delay=["det", 0.01], scheduling=sched, advance=False),
        ], conns=[
            dict(out="node2", inp="node1", window=1, skip=False, blocking=False, jitter="L", delay=["det", 0.01]),
            dict(out="node3", inp="node2", window=2, skip=False, blocking=False, jitter="B" if buf else "L", delay=["det", 0.01]),
            dict(out="node4", inp="node3", window=2, skip=False, blocking=True, jitter="L", delay=["det", 0.01]),
            dict(out="node1", inp="node4", window=3, skip=True, blocking=True, jitter="L", delay=["det", 0.01]),
        ]))
    return out


# ------------------------------------------------------------------ building nodes from a spec
def build(spec, trace="io", hash_ts=True, node_cls=None):
    import rex.constants as const
    from rexmon.witness import Witness

    cls = node_cls or Witness
    nodes = {}
    for i, nd in enumerate(spec["nodes"]):
        kw = dict(name=nd["name"], rate=nd["rate"], delay_dist=mk_dist(nd["delay"]), idx=i, trace=trace, hash_ts=hash_ts,
                  scheduling=const.Scheduling.FREQUENCY if nd["scheduling"] == "F" else const.Scheduling.PHASE,
                  advance=nd["advance"])
        if "expected" in nd:
            kw["delay"] = nd["expected"]
        nodes[nd["name"]] = cls(**kw)
    for c in spec["conns"]:
        kw = dict(window=c["window"], skip=c["skip"], blocking=c["blocking"],
                  jitter=const.Jitter.BUFFER if c["jitter"] == "B" else const.Jitter.LATEST, delay_dist=mk_dist(c["delay"]))
        if "expected" in c:
            kw["delay"] = c["expected"]
        if c.get("name"):
            kw["name"] = c["name"]  # shadow input name
        nodes[c["inp"]].connect(nodes[c["out"]], **kw)
    return nodes, nodes[spec["supervisor"]]


def input_layout(nodes):
    """{idx: [(input_name, window), ...]} in the order the witness hashes/traces its inputs."""
    return {n.idx: [(name, n.inputs[name].window) for name in sorted(n.inputs.keys())] for n in nodes.values()}


def features(spec):
    f = set()
    for c in spec["conns"]:
        if c["blocking"]:
            f.add("blocking")
        if c["skip"]:
            f.add("skip")
        if c["jitter"] == "B":
            f.add("buffer")
        if c["window"] > 1:
            f.add("window>1")
        if c["blocking"] and c["skip"]:
            f.add("blocking+skip")
        if c["jitter"] == "B" and c["skip"]:
            f.add("buffer+skip")
    for n in spec["nodes"]:
        if n["advance"]:
            f.add("advance")
        if n["scheduling"] == "P":
            f.add("phase")
        if q99(n["delay"]) >= 1.0 / n["rate"]:
            f.add("overrun")
        if is_jittery(n["delay"]):
            f.add("jitter")
    return sorted(f)
