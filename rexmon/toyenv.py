"""A scripted, graph-free rl.BaseEnv whose rewards / terminations / truncations follow a script (used by C19 and C20)."""
from rexmon import env  # noqa: F401

import jax
import jax.numpy as jnp
import numpy as onp
from flax import struct
from flax.core import FrozenDict

from rex import base
from rex import rl


@struct.dataclass
class ToyState:
    t: jax.Array  # steps since the episode start
    off: jax.Array  # script offset of this episode (drawn at reset)
    last: jax.Array  # sum of the last action


class ScriptEnv(rl.BaseEnv):
    def __init__(self, rewards, terminated, truncated, obs_dim=3, act_low=(-1.0,), act_high=(1.0,), obs_offset=0.0, obs_scale=1.0, noise=0.0, random_offset=True):
        self.graph = None
        self.params = {}  # AutoResetWrapper(fixed_init=False) looks at env.params
        self.r = jnp.asarray(rewards, jnp.float32)
        self.term = jnp.asarray(terminated, bool)
        self.trunc = jnp.asarray(truncated, bool)
        self.L = int(len(rewards))
        self.obs_dim = obs_dim
        self.low = jnp.asarray(act_low, jnp.float32)
        self.high = jnp.asarray(act_high, jnp.float32)
        self.obs_offset = float(obs_offset)
        self.obs_scale = float(obs_scale)
        self.noise = float(noise)
        self.random_offset = random_offset

    @property
    def max_steps(self):
        return self.L

    def observation_space(self, graph_state=None):
        return rl.Box(low=-jnp.inf * jnp.ones(self.obs_dim), high=jnp.inf * jnp.ones(self.obs_dim), shape=(self.obs_dim,), dtype=jnp.float32)

    def action_space(self, graph_state=None):
        return rl.Box(low=self.low, high=self.high, shape=self.low.shape, dtype=jnp.float32)

    def _obs(self, st, key):
        k = jnp.arange(self.obs_dim, dtype=jnp.float32)
        base_ = jnp.sin(0.37 * st.t.astype(jnp.float32) + k + 0.11 * st.off.astype(jnp.float32)) + 0.1 * st.last
        n = jax.random.normal(key, (self.obs_dim,)) * self.noise
        return (self.obs_offset + self.obs_scale * (base_ + n)).astype(jnp.float32)

    def reset(self, rng=None):
        rng = jax.random.PRNGKey(0) if rng is None else rng
        k1, k2, k3 = jax.random.split(rng, 3)
        off = jax.random.randint(k1, (), 0, self.L) if self.random_offset else jnp.int32(0)
        st = ToyState(t=jnp.int32(0), off=off.astype(jnp.int32), last=jnp.float32(0.0))
        gs = base.GraphState(eps=jnp.int32(0), step=jnp.int32(0), rng=FrozenDict({"env": k2}), state=FrozenDict({"env": st}))
        return gs, self._obs(st, k3), {}

    def step(self, graph_state, action):
        st = graph_state.state["env"]
        idx = (st.off + st.t) % self.L
        a = jnp.asarray(action, jnp.float32).reshape(-1)
        reward = self.r[idx] + 0.01 * jnp.sum(a)
        term, trunc = self.term[idx], self.trunc[idx]
        key, k_obs = jax.random.split(graph_state.rng["env"])
        nst = ToyState(t=st.t + 1, off=st.off, last=jnp.sum(a))
        gs = graph_state.replace(rng=graph_state.rng.copy({"env": key}), state=graph_state.state.copy({"env": nst}), step=graph_state.step + 1)
        return gs, self._obs(nst, k_obs), reward, term, trunc, {}


def make_script(rnd, L, p_term=0.12, p_trunc=0.12, both=0.04):
    r = [round(rnd.uniform(-2, 2), 3) for _ in range(L)]
    term = [False] * L
    trunc = [False] * L
    for i in range(L):
        u = rnd.random()
        if u < both:
            term[i] = trunc[i] = True
        elif u < both + p_term:
            term[i] = True
        elif u < both + p_term + p_trunc:
            trunc[i] = True
    if not any(term) and not any(trunc):
        trunc[L - 1] = True
    return r, term, trunc
